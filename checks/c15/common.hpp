// C15: shared between the generated list TUs and the harness.
#pragma once
#include <array>
#include <string>
#include <memory>
#include <vector>
#include <cassert>
#include <cstddef>
#include <cstdint>
#include <initializer_list>
#include <type_traits>
#include <utility>

#include <xsimd/config/xsimd_config.hpp>
#include <xsimd/config/xsimd_inline.hpp>

#include <xsimd/config/xsimd_arch.hpp>

#include "refmodel.hpp"

namespace c15
{
    template <class A>
    struct arch_id;
#define C15_ID(T, I)                          \
    template <>                               \
    struct arch_id<T>                         \
    {                                         \
        static constexpr int value = I;       \
    };
    C15_ID(xsimd::sse2, A_SSE2)
    C15_ID(xsimd::sse3, A_SSE3)
    C15_ID(xsimd::ssse3, A_SSSE3)
    C15_ID(xsimd::sse4_1, A_SSE4_1)
    C15_ID(xsimd::sse4_2, A_SSE4_2)
    C15_ID(xsimd::fma3<xsimd::sse4_2>, A_FMA3_SSE)
    C15_ID(xsimd::fma4, A_FMA4)
    C15_ID(xsimd::avx, A_AVX)
    C15_ID(xsimd::fma3<xsimd::avx>, A_FMA3_AVX)
    C15_ID(xsimd::avx2, A_AVX2)
    C15_ID(xsimd::fma3<xsimd::avx2>, A_FMA3_AVX2)
    C15_ID(xsimd::avxvnni, A_AVXVNNI)
    C15_ID(xsimd::avx512f, A_AVX512F)
    C15_ID(xsimd::avx512cd, A_AVX512CD)
    C15_ID(xsimd::avx512dq, A_AVX512DQ)
    C15_ID(xsimd::avx512bw, A_AVX512BW)
    C15_ID(xsimd::avx512er, A_AVX512ER)
    C15_ID(xsimd::avx512pf, A_AVX512PF)
    C15_ID(xsimd::avx512ifma, A_AVX512IFMA)
    C15_ID(xsimd::avx512vbmi, A_AVX512VBMI)
    C15_ID(xsimd::avx512vbmi2, A_AVX512VBMI2)
    C15_ID(xsimd::avx512vnni<xsimd::avx512bw>, A_AVX512VNNI_BW)
    C15_ID(xsimd::avx512vnni<xsimd::avx512vbmi2>, A_AVX512VNNI_VBMI2)
    C15_ID(xsimd::neon, A_NEON)
    C15_ID(xsimd::neon64, A_NEON64)
    C15_ID(xsimd::i8mm<xsimd::neon64>, A_I8MM)
    C15_ID(xsimd::detail::sve<512>, A_SVE)
    C15_ID(xsimd::detail::sve<256>, A_SVE)
    C15_ID(xsimd::detail::sve<128>, A_SVE)
    C15_ID(xsimd::detail::rvv<512>, A_RVV)
    C15_ID(xsimd::detail::rvv<256>, A_RVV)
    C15_ID(xsimd::detail::rvv<128>, A_RVV)
    C15_ID(xsimd::wasm, A_WASM)
#undef C15_ID

    // ---- what the functor observed during one dispatch call ----
    struct Token
    {
        long payload;
        int* copies;
        int* moves;
        Token(long p, int* c, int* m)
            : payload(p)
            , copies(c)
            , moves(m)
        {
        }
        Token(const Token& o)
            : payload(o.payload)
            , copies(o.copies)
            , moves(o.moves)
        {
            ++*copies;
        }
        Token(Token&& o) noexcept
            : payload(o.payload)
            , copies(o.copies)
            , moves(o.moves)
        {
            ++*moves;
            o.payload = -1;
        }
    };

    struct DispIO
    {
        // inputs
        int lv_in = 0, cv_in = 0;
        long tok_in = 0;
        // observations
        int calls = 0;
        int arch = -1; // arch id of the (last) invocation
        int first_arch = -1; // arch id of the first invocation
        int lv_seen = 0, cv_seen = 0;
        long tok_seen = 0;
        int copies = 0, moves = 0;
        int lv_after = 0;
        long ret_expected = 0; // what the functor returned (last call)
        long ret_got = 0; // what the caller received
        long ret_slot = 0; // storage the reference-returning functor hands out
        bool ret_is_slot = false; // caller received a reference to ret_slot
    };

    inline long ret_value(int arch, int lv, int cv, long tok)
    {
        return (long)arch * 1000003L + (long)lv * 7919L + (long)cv * 104729L + tok;
    }

    struct ProbeVal
    {
        DispIO* io;
        template <class A>
        __attribute__((noinline)) long operator()(A, int& lv, const int& cv, Token tok) const
        {
            DispIO& o = *io;
            o.calls++;
            o.arch = arch_id<A>::value;
            if (o.first_arch < 0)
                o.first_arch = o.arch;
            o.lv_seen = lv;
            o.cv_seen = cv;
            o.tok_seen = tok.payload;
            lv = lv * 3 + 1;
            o.ret_expected = ret_value(o.arch, o.lv_seen, cv, tok.payload);
            return o.ret_expected;
        }
    };

    struct ProbeRef
    {
        DispIO* io;
        template <class A>
        __attribute__((noinline)) long& operator()(A, int& lv, const int& cv, Token tok) const
        {
            DispIO& o = *io;
            o.calls++;
            o.arch = arch_id<A>::value;
            if (o.first_arch < 0)
                o.first_arch = o.arch;
            o.lv_seen = lv;
            o.cv_seen = cv;
            o.tok_seen = tok.payload;
            lv = lv * 3 + 1;
            o.ret_expected = ret_value(o.arch, o.lv_seen, cv, tok.payload);
            o.ret_slot = o.ret_expected;
            return o.ret_slot;
        }
    };

    // how the dispatcher is obtained: with an explicit list, or (D) through the default template argument of xsimd::dispatch
    template <class L, bool D>
    struct disp
    {
        template <class F>
        static auto make(F&& f) -> decltype(xsimd::dispatch<L>(std::forward<F>(f))) { return xsimd::dispatch<L>(std::forward<F>(f)); }
    };
    template <class L>
    struct disp<L, true>
    {
        template <class F>
        static auto make(F&& f) -> decltype(xsimd::dispatch(std::forward<F>(f))) { return xsimd::dispatch(std::forward<F>(f)); }
    };

    template <class L, bool D = false>
    void run_val(DispIO& io)
    {
        int lv = io.lv_in;
        const int cv = io.cv_in;
        Token tok(io.tok_in, &io.copies, &io.moves);
        ProbeVal f { &io };
        auto d = disp<L, D>::make(f);
        io.ret_got = d(lv, cv, std::move(tok));
        io.lv_after = lv;
    }

    template <class L, bool D = false>
    void run_ref(DispIO& io)
    {
        int lv = io.lv_in;
        const int cv = io.cv_in;
        Token tok(io.tok_in, &io.copies, &io.moves);
        ProbeRef f { &io };
        auto d = disp<L, D>::make(f);
        auto&& r = d(lv, cv, std::move(tok));
        io.ret_got = r;
        io.ret_is_slot = (&r == &io.ret_slot);
        io.lv_after = lv;
    }

    // a dispatcher object kept and invoked twice, built from an rvalue functor with a non-const call operator and its own state
    struct ProbeStateful
    {
        DispIO** cur; // where the current invocation records what it saw
        int invocations = 0;
        template <class A>
        __attribute__((noinline)) long operator()(A, int& lv, const int& cv, Token tok)
        {
            DispIO& o = **cur;
            ++invocations;
            o.calls++;
            o.arch = arch_id<A>::value;
            if (o.first_arch < 0)
                o.first_arch = o.arch;
            o.lv_seen = lv;
            o.cv_seen = cv;
            o.tok_seen = tok.payload;
            lv = lv * 3 + 1;
            o.ret_expected = ret_value(o.arch, o.lv_seen, cv, tok.payload) + invocations;
            return o.ret_expected;
        }
    };

    template <class L, bool D = false>
    void run_twice(DispIO& io, DispIO& io2)
    {
        DispIO* cur = &io;
        auto d = disp<L, D>::make(ProbeStateful { &cur });
        {
            int lv = io.lv_in;
            const int cv = io.cv_in;
            Token tok(io.tok_in, &io.copies, &io.moves);
            io.ret_got = d(lv, cv, std::move(tok));
            io.lv_after = lv;
        }
        cur = &io2;
        {
            int lv = io2.lv_in;
            const int cv = io2.cv_in;
            Token tok(io2.tok_in, &io2.copies, &io2.moves);
            io2.ret_got = d(lv, cv, std::move(tok));
            io2.lv_after = lv;
        }
    }

    // a functor that owns move-sensitive state, passed as a NON-CONST LVALUE and used again afterwards: whether the dispatcher refers to it or
    // copies it is the library's choice, but dispatching must not gut the caller's object, and every dispatch invokes it (or its copy) exactly once
    struct ProbeOwning
    {
        DispIO** cur;
        std::vector<long> payload; // participates in the result
        template <class A>
        __attribute__((noinline)) long operator()(A, int& lv, const int& cv, Token tok)
        {
            DispIO& o = **cur;
            o.calls++;
            o.arch = arch_id<A>::value;
            if (o.first_arch < 0)
                o.first_arch = o.arch;
            o.lv_seen = lv;
            o.cv_seen = cv;
            o.tok_seen = tok.payload;
            lv = lv * 3 + 1;
            long sum = 0;
            for (long v : payload)
                sum += v;
            o.ret_expected = ret_value(o.arch, o.lv_seen, cv, tok.payload) + sum;
            return o.ret_expected;
        }
    };
    // returns the number of payload elements the caller's functor still holds after the two dispatches (3 if it was left alone)
    template <class L, bool D = false>
    int run_owning(DispIO& io, DispIO& io2, long* payload_sum_expected)
    {
        DispIO* cur = &io;
        ProbeOwning f { &cur, { 101, 103, 9 } };
        *payload_sum_expected = 213;
        {
            int lv = io.lv_in;
            const int cv = io.cv_in;
            Token tok(io.tok_in, &io.copies, &io.moves);
            io.ret_got = disp<L, D>::make(f)(lv, cv, std::move(tok));
            io.lv_after = lv;
        }
        cur = &io2;
        {
            int lv = io2.lv_in;
            const int cv = io2.cv_in;
            Token tok(io2.tok_in, &io2.copies, &io2.moves);
            io2.ret_got = disp<L, D>::make(f)(lv, cv, std::move(tok));
            io2.lv_after = lv;
        }
        return (int)f.payload.size();
    }

    // other call shapes: no argument and no result; five arguments of mixed value categories
    struct MiscIO
    {
        int calls[3] = { 0, 0, 0 };
        int arch[3] = { -1, -1, -1 };
        long got_unique = 0, want_unique = 0;
        long got_many = 0, want_many = 0;
        bool many_ok = true; // argument identities/categories as seen by the functor
    };
    struct ProbeVoid
    {
        MiscIO* io;
        template <class A>
        __attribute__((noinline)) void operator()(A) const
        {
            io->calls[0]++;
            io->arch[0] = arch_id<A>::value;
        }
    };
    struct ProbeMany
    {
        MiscIO* io;
        const std::string* expect_s;
        double* expect_d;
        template <class A>
        // every parameter type accepts lvalues and rvalues alike, so that a library change in how arguments are passed on shows up as a
        // run-time observation (copies/moves, identities) and never as a harness that no longer compiles
        __attribute__((noinline)) long operator()(A, int a, const std::string& s, double& d, std::vector<int> v, const char* z) const
        {
            io->calls[2]++;
            io->arch[2] = arch_id<A>::value;
            io->many_ok = (&s == expect_s) && (&d == expect_d) && v.size() == 3 && z[0] == 'z';
            d += 1.5;
            io->want_many = a + (long)s.size() + (long)v.size() + arch_id<A>::value;
            return io->want_many;
        }
    };
    template <class L, bool D = false>
    void run_misc(MiscIO& io, long seed)
    {
        disp<L, D>::make(ProbeVoid { &io })();
        const std::string s(5 + (size_t)(seed & 7), 'x');
        double d = 2.0;
        std::vector<int> v { 1, 2, 3 };
        io.got_many = disp<L, D>::make(ProbeMany { &io, &s, &d })((int)(seed & 1023), s, d, std::move(v), "z");
        io.many_ok = io.many_ok && d == 3.5 && v.empty(); // the vector was passed as an rvalue: it must have been moved into the by-value parameter
    }

    template <class L>
    struct list_ids;
    template <class... A>
    struct list_ids<xsimd::arch_list<A...>>
    {
        static constexpr int n = sizeof...(A);
        static const int* get()
        {
            static const int ids[sizeof...(A) + 1] = { arch_id<A>::value..., -1 };
            return ids;
        }
    };

    struct ListEntry
    {
        const char* kind; // "full" | "supported" | "suffix" | "prefix" | "single" | "pair" | "random" | "shuffled"
        int n;
        const int* ids;
        void (*val)(DispIO&);
        void (*ref)(DispIO&);
        void (*twice)(DispIO&, DispIO&);
        int (*owning)(DispIO&, DispIO&, long*);
        void (*misc)(MiscIO&, long);
    };

    template <class L>
    ListEntry make_entry(const char* kind)
    {
        return ListEntry { kind, list_ids<L>::n, list_ids<L>::get(), &run_val<L>, &run_ref<L>, &run_twice<L>, &run_owning<L>, &run_misc<L> };
    }

    // the default list: xsimd::dispatch(f) without a template argument must walk supported_architectures
    inline ListEntry make_default_entry(const char* kind)
    {
        using L = xsimd::supported_architectures;
        return ListEntry { kind, list_ids<L>::n, list_ids<L>::get(), &run_val<L, true>, &run_ref<L, true>, &run_twice<L, true>, &run_owning<L, true>, &run_misc<L, true> };
    }

    template <class C, class P>
    constexpr bool is_anc() { return std::is_base_of<P, C>::value && !std::is_same<P, C>::value; }

    inline Chain build_chain()
    {
        Chain ch;
        memset(&ch, 0, sizeof ch);
#define ROW(CT, CI) \
    ch.parent[CI][A_SSE2] |= is_anc<CT, xsimd::sse2>(); \
    ch.parent[CI][A_SSE3] |= is_anc<CT, xsimd::sse3>(); \
    ch.parent[CI][A_SSSE3] |= is_anc<CT, xsimd::ssse3>(); \
    ch.parent[CI][A_SSE4_1] |= is_anc<CT, xsimd::sse4_1>(); \
    ch.parent[CI][A_SSE4_2] |= is_anc<CT, xsimd::sse4_2>(); \
    ch.parent[CI][A_FMA3_SSE] |= is_anc<CT, xsimd::fma3<xsimd::sse4_2>>(); \
    ch.parent[CI][A_FMA4] |= is_anc<CT, xsimd::fma4>(); \
    ch.parent[CI][A_AVX] |= is_anc<CT, xsimd::avx>(); \
    ch.parent[CI][A_FMA3_AVX] |= is_anc<CT, xsimd::fma3<xsimd::avx>>(); \
    ch.parent[CI][A_AVX2] |= is_anc<CT, xsimd::avx2>(); \
    ch.parent[CI][A_FMA3_AVX2] |= is_anc<CT, xsimd::fma3<xsimd::avx2>>(); \
    ch.parent[CI][A_AVXVNNI] |= is_anc<CT, xsimd::avxvnni>(); \
    ch.parent[CI][A_AVX512F] |= is_anc<CT, xsimd::avx512f>(); \
    ch.parent[CI][A_AVX512CD] |= is_anc<CT, xsimd::avx512cd>(); \
    ch.parent[CI][A_AVX512DQ] |= is_anc<CT, xsimd::avx512dq>(); \
    ch.parent[CI][A_AVX512BW] |= is_anc<CT, xsimd::avx512bw>(); \
    ch.parent[CI][A_AVX512ER] |= is_anc<CT, xsimd::avx512er>(); \
    ch.parent[CI][A_AVX512PF] |= is_anc<CT, xsimd::avx512pf>(); \
    ch.parent[CI][A_AVX512IFMA] |= is_anc<CT, xsimd::avx512ifma>(); \
    ch.parent[CI][A_AVX512VBMI] |= is_anc<CT, xsimd::avx512vbmi>(); \
    ch.parent[CI][A_AVX512VBMI2] |= is_anc<CT, xsimd::avx512vbmi2>(); \
    ch.parent[CI][A_AVX512VNNI_BW] |= is_anc<CT, xsimd::avx512vnni<xsimd::avx512bw>>(); \
    ch.parent[CI][A_AVX512VNNI_VBMI2] |= is_anc<CT, xsimd::avx512vnni<xsimd::avx512vbmi2>>();
        ROW(xsimd::sse2, A_SSE2)
        ROW(xsimd::sse3, A_SSE3)
        ROW(xsimd::ssse3, A_SSSE3)
        ROW(xsimd::sse4_1, A_SSE4_1)
        ROW(xsimd::sse4_2, A_SSE4_2)
        ROW(xsimd::fma3<xsimd::sse4_2>, A_FMA3_SSE)
        ROW(xsimd::fma4, A_FMA4)
        ROW(xsimd::avx, A_AVX)
        ROW(xsimd::fma3<xsimd::avx>, A_FMA3_AVX)
        ROW(xsimd::avx2, A_AVX2)
        ROW(xsimd::fma3<xsimd::avx2>, A_FMA3_AVX2)
        ROW(xsimd::avxvnni, A_AVXVNNI)
        ROW(xsimd::avx512f, A_AVX512F)
        ROW(xsimd::avx512cd, A_AVX512CD)
        ROW(xsimd::avx512dq, A_AVX512DQ)
        ROW(xsimd::avx512bw, A_AVX512BW)
        ROW(xsimd::avx512er, A_AVX512ER)
        ROW(xsimd::avx512pf, A_AVX512PF)
        ROW(xsimd::avx512ifma, A_AVX512IFMA)
        ROW(xsimd::avx512vbmi, A_AVX512VBMI)
        ROW(xsimd::avx512vbmi2, A_AVX512VBMI2)
        ROW(xsimd::avx512vnni<xsimd::avx512bw>, A_AVX512VNNI_BW)
        ROW(xsimd::avx512vnni<xsimd::avx512vbmi2>, A_AVX512VNNI_VBMI2)
#undef ROW
        close_chain(ch);
        return ch;
    }

    // provided by the generated TUs
    const ListEntry* lists_part(int part, int* n);
    int lists_parts();

    // ------------------------------------------------------------------ report of the real code
    using Report = std::array<bool, N_ARCH>;

    inline Report read_report(const xsimd::detail::supported_arch& s)
    {
        Report r;
        r[A_SSE2] = s.has(xsimd::sse2 {});
        r[A_SSE3] = s.has(xsimd::sse3 {});
        r[A_SSSE3] = s.has(xsimd::ssse3 {});
        r[A_SSE4_1] = s.has(xsimd::sse4_1 {});
        r[A_SSE4_2] = s.has(xsimd::sse4_2 {});
        r[A_FMA3_SSE] = s.has(xsimd::fma3<xsimd::sse4_2> {});
        r[A_FMA4] = s.has(xsimd::fma4 {});
        r[A_AVX] = s.has(xsimd::avx {});
        r[A_FMA3_AVX] = s.has(xsimd::fma3<xsimd::avx> {});
        r[A_AVX2] = s.has(xsimd::avx2 {});
        r[A_FMA3_AVX2] = s.has(xsimd::fma3<xsimd::avx2> {});
        r[A_AVXVNNI] = s.has(xsimd::avxvnni {});
        r[A_AVX512F] = s.has(xsimd::avx512f {});
        r[A_AVX512CD] = s.has(xsimd::avx512cd {});
        r[A_AVX512DQ] = s.has(xsimd::avx512dq {});
        r[A_AVX512BW] = s.has(xsimd::avx512bw {});
        r[A_AVX512ER] = s.has(xsimd::avx512er {});
        r[A_AVX512PF] = s.has(xsimd::avx512pf {});
        r[A_AVX512IFMA] = s.has(xsimd::avx512ifma {});
        r[A_AVX512VBMI] = s.has(xsimd::avx512vbmi {});
        r[A_AVX512VBMI2] = s.has(xsimd::avx512vbmi2 {});
        r[A_AVX512VNNI_BW] = s.has(xsimd::avx512vnni<xsimd::avx512bw> {});
        r[A_AVX512VNNI_VBMI2] = s.has(xsimd::avx512vnni<xsimd::avx512vbmi2> {});
        r[A_NEON] = s.has(xsimd::neon {});
        r[A_NEON64] = s.has(xsimd::neon64 {});
        r[A_I8MM] = s.has(xsimd::i8mm<xsimd::neon64> {});
        r[A_SVE] = s.has(xsimd::detail::sve<512> {}) || s.has(xsimd::detail::sve<256> {}) || s.has(xsimd::detail::sve<128> {});
        r[A_RVV] = s.has(xsimd::detail::rvv<512> {}) || s.has(xsimd::detail::rvv<256> {}) || s.has(xsimd::detail::rvv<128> {});
        r[A_WASM] = s.has(xsimd::wasm {});
        return r;
    }
    inline uint64_t report_mask(const Report& r)
    {
        uint64_t m = 0;
        for (int i = 0; i < N_ARCH; ++i)
            m |= (uint64_t)r[i] << i;
        return m;
    }


    // ------------------------------------------------------------------ observations made BEFORE main() (early.cpp)
    // "Process start" has an interior: initialisers of other translation units run before main in an order the library does not control. A
    // kernel registry constructed with an early init_priority, or a constructor function, may be the first caller of available_architectures()
    // and may build its dispatchers then. What it saw is recorded here (plain data, constant-initialised, so no later initialiser resets it).
    struct EarlyObservation
    {
        bool taken;
        bool report[N_ARCH];
    };
    extern EarlyObservation g_early_registry, g_early_ctor;
    int early_registry_dispatch(); // invokes the dispatcher the early registry built before main; returns the arch id it ran the functor with
    int early_registry_calls();
    const int* early_registry_list(int& n); // the list that dispatcher was built over (xsimd's default: supported_architectures), best first
}
