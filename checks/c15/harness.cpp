// C15 harness: ISA availability + dispatch on a simulated CPU/OS (DESIGN.md 6.1).
// Real code: detail::supported_arch ctor, available_architectures(), has(), dispatcher, arch lists.
// Stub: the CPUID and XGETBV instructions (SimCpu) behind the XSIMD_VERIF cpu_source hook.
#include "common.hpp"

#include "../../sim/core.hpp"

#include <array>
#include <stdexcept>

using namespace c15;
using sim::Counter;
using sim::json::Value;

namespace
{
    // ------------------------------------------------------------------ SimCpu
    struct SimCpu
    {
        Cfg cfg;
        uint64_t cpuid_calls = 0, xgetbv_calls = 0, ud_events = 0, other_leaf_calls = 0;

        static void cpuid_cb(void* ctx, int reg[4], int level, int count)
        {
            SimCpu& c = *(SimCpu*)ctx;
            ++c.cpuid_calls;
            const uint32_t* src = nullptr;
            const unsigned ulevel = (unsigned)level;
            if (ulevel == 1)
                src = c.cfg.leaf[L1];
            else if (ulevel == 7 && count == 0)
                src = c.cfg.leaf[L7_0];
            else if (ulevel == 7 && count == 1)
                src = c.cfg.leaf[L7_1];
            else if (ulevel == 0x80000001u)
                src = c.cfg.leaf[L8_1];
            if (src)
            {
                for (int i = 0; i < 4; ++i)
                    reg[i] = (int)src[i];
                return;
            }
            ++c.other_leaf_calls;
            // Leaves the detector does not read today. Should it start to, it meets what real machines answer: an identification leaf with one of the
            // real vendor strings and a plausible maximum leaf, the vendor's rule for leaves beyond that maximum (Intel: the data of the highest basic
            // leaf, AMD: zeros), and for everything else per-machine stable contents (all zero on some machines, arbitrary bits on others).
            static const uint32_t VENDOR[4][3] = { { 0x756e6547, 0x49656e69, 0x6c65746e },   // GenuineIntel (ebx, edx, ecx)
                                                   { 0x68747541, 0x69746e65, 0x444d4163 },   // AuthenticAMD
                                                   { 0x6f677948, 0x6e65476e, 0x656e6975 },   // HygonGenuine
                                                   { 0x20202020, 0x20202020, 0x20202020 } }; // a hypervisor's blank vendor
            static const uint32_t MAXLEAF[8] = { 0x1b, 0x24, 0x0d, 0x07, 0x29, 0x1f, 0x01, 0x16 };
            static const uint32_t MAXEXT[4] = { 0x80000008u, 0x8000001fu, 0x80000001u, 0x80000000u };
            const uint64_t j = c.cfg.junk;
            const unsigned vendor = (unsigned)(j & 3), maxleaf = MAXLEAF[(j >> 2) & 7], maxext = MAXEXT[(j >> 5) & 3];
            const bool zero_filled = (j >> 7) & 1;
            if (ulevel == 0)
            {
                reg[0] = (int)maxleaf;
                reg[1] = (int)VENDOR[vendor][0];
                reg[3] = (int)VENDOR[vendor][1];
                reg[2] = (int)VENDOR[vendor][2];
                return;
            }
            if (ulevel == 0x80000000u)
            {
                reg[0] = (int)maxext;
                reg[1] = (int)VENDOR[vendor][0];
                reg[3] = (int)VENDOR[vendor][1];
                reg[2] = (int)VENDOR[vendor][2];
                return;
            }
            unsigned eff = ulevel;
            const bool basic = ulevel < 0x40000000u, ext = ulevel >= 0x80000000u;
            if ((basic && ulevel > maxleaf) || (ext && ulevel > maxext))
            {
                if (vendor != 0 || ext)
                {
                    reg[0] = reg[1] = reg[2] = reg[3] = 0; // AMD-style: reserved leaves read as zero
                    return;
                }
                eff = maxleaf; // Intel-style: the data of the highest basic leaf
                if (eff == 1 || eff == 7)
                {
                    const uint32_t* r = eff == 1 ? c.cfg.leaf[L1] : c.cfg.leaf[L7_0];
                    for (int i = 0; i < 4; ++i)
                        reg[i] = (int)r[i];
                    return;
                }
            }
            if (zero_filled && j != 0)
            {
                reg[0] = reg[1] = reg[2] = reg[3] = 0;
                return;
            }
            uint64_t s = j ^ ((uint64_t)eff << 32) ^ (uint32_t)(eff == ulevel ? count : 0);
            for (int i = 0; i < 4; ++i)
                reg[i] = (int)(uint32_t)sim::splitmix64(s);
        }
        static unsigned xgetbv_cb(void* ctx)
        {
            SimCpu& c = *(SimCpu*)ctx;
            ++c.xgetbv_calls;
            if (!c.cfg.osxsave)
            {
                ++c.ud_events; // real hardware: #UD -> SIGILL inside detection
                return 0;
            }
            return c.cfg.xcr0;
        }
    };

    // real-CPU pass-through (stub-fidelity self-test)
    void real_cpuid(void*, int reg[4], int level, int count)
    {
        __asm__("cpuid\n\t" : "=a"(reg[0]), "=b"(reg[1]), "=c"(reg[2]), "=d"(reg[3]) : "0"(level), "2"(count));
    }
    unsigned real_xgetbv(void*)
    {
        uint32_t lo, hi;
        __asm__("xgetbv" : "=a"(lo), "=d"(hi) : "c"(0));
        return lo;
    }

    unsigned long g_boot = 0; // monotone across the whole process so the hook's boot cache never aliases

    // ------------------------------------------------------------------ plan
    enum OpKind
    {
        OP_BOOT,
        OP_DETECT,
        OP_DETECT_AGAIN,
        OP_CONSTRUCT_FRESH,
        OP_DISPATCH,
        OP_EARLY, // look at what initialisers that ran before main() on the REAL machine saw, and use the dispatcher one of them built
        N_OPKIND
    };
    const char* OPNAME[N_OPKIND] = { "boot", "detect", "detect_again", "construct_fresh", "dispatch", "early_initialiser" };

    struct Op
    {
        OpKind kind = OP_DETECT;
        // boot
        Cfg cfg;
        std::string tmpl; // family template or "raw"
        std::vector<std::string> faults; // fault kinds applied on top (informational; cfg is authoritative)
        // dispatch
        uint32_t list = 0;
        int lv = 0, cv = 0;
        long tok = 0;
        bool ref = false;
        bool twice = false; // the dispatcher object is kept and invoked a second time (stateful rvalue functor)
        bool owning = false; // a state-owning functor passed as a non-const lvalue and dispatched twice
        bool misc = false; // other call shapes: void/no-arg, five mixed arguments
    };

    // family templates: feature sets closed under the extension chain
    struct Family
    {
        const char* name;
        std::vector<int> archs;
    };
    const std::vector<int> F_CORE2 = { A_SSE2, A_SSE3, A_SSSE3 };
    std::vector<int> plus(std::vector<int> a, std::initializer_list<int> b)
    {
        a.insert(a.end(), b);
        return a;
    }
    const std::vector<int> F_NEHALEM = plus(F_CORE2, { A_SSE4_1, A_SSE4_2 });
    const std::vector<int> F_SANDY = plus(F_NEHALEM, { A_AVX });
    const std::vector<int> F_BULLDOZER = plus(F_SANDY, { A_FMA4 });
    const std::vector<int> F_PILEDRIVER = plus(F_BULLDOZER, { A_FMA3_SSE });
    const std::vector<int> F_HASWELL = plus(F_SANDY, { A_FMA3_SSE, A_AVX2 });
    const std::vector<int> F_SKX = plus(F_HASWELL, { A_AVX512F, A_AVX512CD, A_AVX512DQ, A_AVX512BW });
    const std::vector<int> F_KNL = plus(F_HASWELL, { A_AVX512F, A_AVX512CD, A_AVX512ER, A_AVX512PF });
    const std::vector<int> F_CNL = plus(F_SKX, { A_AVX512IFMA, A_AVX512VBMI });
    const std::vector<int> F_ICL = plus(F_CNL, { A_AVX512VBMI2, A_AVX512VNNI_BW });
    const std::vector<int> F_ADL = plus(F_HASWELL, { A_AVXVNNI });
    const std::vector<int> F_SPR = plus(F_ICL, { A_AVXVNNI });
    const std::vector<Family> FAMILIES = {
        { "core2", F_CORE2 }, { "nehalem", F_NEHALEM }, { "sandybridge", F_SANDY }, { "bulldozer", F_BULLDOZER },
        { "piledriver", F_PILEDRIVER }, { "haswell", F_HASWELL }, { "skylake_x", F_SKX }, { "knights_landing", F_KNL },
        { "cannonlake", F_CNL }, { "icelake", F_ICL }, { "alderlake", F_ADL }, { "sapphire_rapids", F_SPR }, { "zen4", F_ICL },
    };

    bool is_feature_bit(int leaf, int reg, int bit)
    {
        for (auto& f : FEATURE_BITS)
            if (f.leaf == leaf && f.reg == reg && f.bit == bit)
                return true;
        return false;
    }

    Counter c_boots("sim", "boots"), c_detects("sim", "detect_calls"), c_dispatches("sim", "dispatch_calls"), c_fresh("sim", "construct_fresh_calls"),
        c_early("sim", "early_initialiser_observations");
    Counter c_cpuid("sim", "cpuid_instructions"), c_xgetbv("sim", "xgetbv_instructions");
    Counter cl_onlyif("clause", "1_only_if(arch,boot)"), cl_mono("clause", "2_monotone_on_closed(child,parent,boot)"), cl_ud("clause", "3_no_xgetbv_ud(boot)"),
        cl_early("clause", "1-5_before_main_on_the_real_machine(compare)"), cl_stable("clause", "4_stable_within_boot(compare)"), cl_disp("clause", "5_dispatch_judged"), cl_disp_vac("clause", "5_dispatch_vacuous_none_available"),
        cl_disp_twice("clause", "5_second_invocation_of_a_kept_dispatcher_judged"), cl_disp_misc("clause", "5_other_call_shapes_judged(void_no_argument,five_mixed_arguments)");
    Counter p_closed("probe", "closed_configurations"), p_nonclosed("probe", "non_closed_configurations"), p_bits_no_state("probe", "arch_with_bits_but_os_state_disabled"),
        p_fall5("probe", "dispatch_fell_through_5_or_more"), p_last("probe", "dispatch_chose_last_member"), p_underreport("info", "bits_and_state_present_but_not_reported(permitted:the_property_says_only_if)"),
        p_reboot_changed("probe", "reboot_changed_report"), p_osx_off("probe", "boots_with_osxsave_off"), p_other_leaf("info", "detector_asked_leaf_outside_the_four(served_realistic_identification_and_per-machine_contents)");

    sim::DistinctSet d_cfg_report("cfg_report_pairs"), d_nontrivial("nontrivial_cfg_projections"), d_disp("dispatch_paths");

    const char* FAULT_KINDS[] = { "osxsave_off", "xcr0_x87_only", "xcr0_sse_only", "xcr0_no_zmm", "clear_feature", "set_unrelated", "parent_missing" };
    constexpr int N_FAULTS = 7;

    struct C15Harness : sim::HarnessBase
    {
        using Plan = std::vector<Op>;
        static const char* id() { return "C15"; }

        Chain chain;
        std::vector<ListEntry> lists;
        uint64_t max_ops = 40;
        Counter* f_conf[N_FAULTS];
        Counter* f_fired[N_FAULTS];

        C15Harness()
        {
            chain = build_chain();
            for (int p = 0; p < lists_parts(); ++p)
            {
                int n = 0;
                const ListEntry* e = lists_part(p, &n);
                for (int i = 0; i < n; ++i)
                    lists.push_back(e[i]);
            }
            for (int i = 0; i < N_FAULTS; ++i)
            {
                f_conf[i] = &sim::dyn_counter("fault_configured", FAULT_KINDS[i]);
                f_fired[i] = &sim::dyn_counter("fault_fired", FAULT_KINDS[i]);
            }
        }
        void configure(const sim::Params& p) { max_ops = p.u64("max_ops", 40); }
        Report real_main, real_pass; // the real machine as reported from main() without a source, and through a pass-through source
        uint64_t shrink_budget() const { return 20000; }
        // "process start" is part of this simulation: violation candidates are confirmed, shrunk and reported in pristine processes, and a
        // candidate that needs more than one machine lifetime in the same process (state carried across a simulated reboot) is an artefact
        bool pristine_confirmation() const { return true; }
        bool spans_several_lifetimes(const Plan& p) const
        {
            // ops that precede the first boot run on the implicit power-on configuration: that is a lifetime of its own
            size_t lifetimes = !p.empty() && p[0].kind != OP_BOOT ? 1 : 0;
            for (const Op& op : p)
                lifetimes += op.kind == OP_BOOT;
            return lifetimes > 1;
        }

        // stub fidelity: a pass-through source must give the same report as no source at all
        void startup_selftest()
        {
            xsimd::verif::current_cpu_source() = nullptr;
            Report a = read_report(xsimd::available_architectures());
            xsimd::verif::cpu_source pass { real_cpuid, real_xgetbv, nullptr, ++g_boot };
            xsimd::verif::current_cpu_source() = &pass;
            Report b = read_report(xsimd::available_architectures());
            xsimd::verif::current_cpu_source() = nullptr;
            real_main = a;
            real_pass = b;
            if (!g_early_registry.taken || !g_early_ctor.taken)
                throw std::runtime_error("C15 self-test: the pre-main initialisers of early.cpp did not run");
            if (lists.empty())
                throw std::runtime_error("C15 self-test: no arch lists compiled in");
        }

        // ---------------------------------------------------------------- generation
        void random_other_xcr0_bits(sim::Rng& rng, Cfg& c)
        {
            for (int b : { 3, 4, 9, 17, 18 })
                if (rng.coin())
                    c.xcr0 |= 1u << b;
        }

        Cfg gen_template(sim::Rng& rng, const Family& fam, int unrelated_mode)
        {
            Cfg c;
            c.junk = rng.next();
            // unrelated bits first: 0 = all zero, 1 = all one, 2 = random
            for (int l = 0; l < N_LEAVES; ++l)
                for (int r = 0; r < 4; ++r)
                {
                    uint32_t v = unrelated_mode == 0 ? 0u : unrelated_mode == 1 ? 0xffffffffu
                                                                                 : rng.next32();
                    c.leaf[l][r] = v;
                }
            for (auto& f : FEATURE_BITS)
                c.set_bit(f, false);
            bool has_avx = false, has_512 = false;
            for (int a : fam.archs)
            {
                for (int i = 0; i < SPEC[a].nbits; ++i)
                    c.set_bit(SPEC[a].bits[i], true);
                if (a == A_AVX)
                    has_avx = true;
                if (a == A_AVX512F)
                    has_512 = true;
            }
            c.osxsave = has_avx ? 1 : (rng.coin() ? 1 : 0);
            c.xcr0 = 1 | 2;
            if (has_avx)
                c.xcr0 |= 4;
            if (has_512)
                c.xcr0 |= 0xe0;
            random_other_xcr0_bits(rng, c);
            c.mirror_osxsave();
            return c;
        }

        Cfg gen_raw(sim::Rng& rng)
        {
            Cfg c;
            c.junk = rng.next();
            for (int l = 0; l < N_LEAVES; ++l)
                for (int r = 0; r < 4; ++r)
                    c.leaf[l][r] = rng.next32();
            if (rng.coin())
                for (auto& f : FEATURE_BITS)
                    c.set_bit(f, rng.coin());
            c.osxsave = rng.coin();
            switch (rng.below(5))
            {
            case 0:
                c.xcr0 = 1;
                break;
            case 1:
                c.xcr0 = 3;
                break;
            case 2:
                c.xcr0 = 7;
                break;
            case 3:
                c.xcr0 = 0xe7;
                break;
            default:
                c.xcr0 = rng.coin() ? 0xe7 : 7;
                break;
            }
            random_other_xcr0_bits(rng, c);
            c.mirror_osxsave();
            return c;
        }

        void apply_fault(sim::Rng& rng, Cfg& c, int kind, Op& op)
        {
            ++*f_conf[kind];
            bool fired = false;
            switch (kind)
            {
            case 0: // osxsave_off
                fired = c.osxsave;
                c.osxsave = 0;
                break;
            case 1: // xcr0_x87_only
                fired = c.osxsave && (c.xcr0 & 0xe6);
                c.xcr0 &= ~0xe6u;
                break;
            case 2: // xcr0_sse_only: AVX state disabled
                fired = c.osxsave && (c.xcr0 & 0xe4);
                c.xcr0 &= ~0xe4u;
                c.xcr0 |= 2;
                break;
            case 3: // xcr0_no_zmm: AVX-512 state disabled
                fired = c.osxsave && (c.xcr0 & 0xe0);
                c.xcr0 &= ~0xe0u;
                break;
            case 4: // clear_feature
            {
                const FeatureBit& f = FEATURE_BITS[rng.below(20)];
                fired = c.bit(f);
                c.set_bit(f, false);
                break;
            }
            case 5: // set_unrelated: a neighbouring bit that is not a feature bit of the table
            {
                const FeatureBit& f = FEATURE_BITS[rng.below(20)];
                for (int tries = 0; tries < 8; ++tries)
                {
                    int l = rng.coin() ? f.leaf : (int)rng.below(N_LEAVES);
                    int r = rng.coin() ? f.reg : (int)rng.below(4);
                    int b = (f.bit + (int)rng.range(-2, 2) + 32) % 32;
                    if (is_feature_bit(l, r, b) || (l == L1 && r == ECX && b == 27))
                        continue;
                    fired = !((c.leaf[l][r] >> b) & 1);
                    c.leaf[l][r] |= 1u << b;
                    break;
                }
                break;
            }
            case 6: // parent_missing: keep a child bit, drop one of its ancestors' bits
            {
                std::vector<int> present;
                for (int a = 0; a < N_X86; ++a)
                    if (own_bits(c, a))
                        present.push_back(a);
                if (!present.empty())
                {
                    int child = present[rng.below(present.size())];
                    std::vector<int> anc;
                    for (int p = 0; p < N_X86; ++p)
                        if (chain.parent[child][p] && own_bits(c, p))
                            anc.push_back(p);
                    if (!anc.empty())
                    {
                        int p = anc[rng.below(anc.size())];
                        // only drop bits that the child does not itself need
                        for (int i = 0; i < SPEC[p].nbits; ++i)
                        {
                            bool needed = false;
                            for (int k = 0; k < SPEC[child].nbits; ++k)
                                if (!memcmp(&SPEC[child].bits[k], &SPEC[p].bits[i], sizeof(FeatureBit)))
                                    needed = true;
                            if (!needed)
                            {
                                c.set_bit(SPEC[p].bits[i], false);
                                fired = true;
                            }
                        }
                    }
                }
                break;
            }
            }
            c.mirror_osxsave();
            if (fired)
                ++*f_fired[kind];
            op.faults.push_back(std::string(FAULT_KINDS[kind]) + (fired ? "" : "(no-effect)"));
        }

        Op gen_boot(sim::Rng& rng, uint32_t enabled_faults, int unrelated_mode, unsigned raw_pct)
        {
            Op op;
            op.kind = OP_BOOT;
            if (rng.below(100) < raw_pct)
            {
                op.tmpl = "raw";
                op.cfg = gen_raw(rng);
            }
            else
            {
                const Family& fam = FAMILIES[rng.below(FAMILIES.size())];
                op.tmpl = fam.name;
                op.cfg = gen_template(rng, fam, unrelated_mode);
                int nf = (int)rng.pick<int>({ 0, 1, 1, 1, 2, 3 });
                for (int i = 0; i < nf && enabled_faults; ++i)
                {
                    int k;
                    do
                        k = (int)rng.below(N_FAULTS);
                    while (!((enabled_faults >> k) & 1));
                    apply_fault(rng, op.cfg, k, op);
                }
            }
            if (!hardware_presentable(op.cfg))
                throw std::runtime_error("C15 generator produced a configuration hardware cannot present");
            return op;
        }

        Plan generate(sim::Rng& rng)
        {
            // swarm: per-run configuration
            uint32_t enabled_faults = (uint32_t)rng.below(1u << N_FAULTS);
            if (rng.chance(1, 8))
                enabled_faults = 0; // fault-free lifetimes
            int unrelated_mode = (int)rng.below(3);
            unsigned raw_pct = rng.pick<unsigned>({ 0, 10, 30, 100 });
            unsigned w_detect = 1 + (unsigned)rng.below(4), w_again = (unsigned)rng.below(3), w_fresh = (unsigned)rng.below(3),
                     w_disp = 1 + (unsigned)rng.below(8), w_reboot = 1 + (unsigned)rng.below(3);
            uint64_t n = 1 + rng.below(max_ops);
            Plan plan;
            plan.push_back(gen_boot(rng, enabled_faults, unrelated_mode, raw_pct));
            const bool with_early = rng.chance(1, 16);
            const uint64_t early_at = 1 + rng.below(n);
            while (plan.size() < n)
            {
                if (with_early && plan.size() == early_at)
                {
                    Op e;
                    e.kind = OP_EARLY;
                    plan.push_back(e);
                    continue;
                }
                unsigned tot = w_detect + w_again + w_fresh + w_disp + w_reboot;
                unsigned x = (unsigned)rng.below(tot);
                Op op;
                if (x < w_detect)
                    op.kind = OP_DETECT;
                else if ((x -= w_detect) < w_again)
                    op.kind = OP_DETECT_AGAIN;
                else if ((x -= w_again) < w_fresh)
                    op.kind = OP_CONSTRUCT_FRESH;
                else if ((x -= w_fresh) < w_disp)
                {
                    op.kind = OP_DISPATCH;
                    op.list = rng.next32();
                    op.lv = (int)rng.range(-1000, 1000);
                    op.cv = (int)rng.range(-1000, 1000);
                    op.tok = (long)rng.range(0, 1000000);
                    op.ref = rng.coin();
                    op.twice = !op.ref && rng.chance(1, 3);
                    op.owning = !op.ref && !op.twice && rng.chance(1, 3);
                    op.misc = !op.ref && !op.twice && !op.owning && rng.chance(1, 3);
                }
                else
                    op = gen_boot(rng, enabled_faults, unrelated_mode, raw_pct);
                plan.push_back(op);
            }
            return plan;
        }

        // ---------------------------------------------------------------- execution + oracle
        struct BootState
        {
            bool have_first = false;
            Report first;
            bool judged = false;
        };

        static Report read_early(const EarlyObservation& e)
        {
            Report r;
            for (int a = 0; a < N_ARCH; ++a)
                r[a] = e.report[a];
            return r;
        }

        void judge_report(const Cfg& cfg, const Report& rep, sim::Outcome& out)
        {
            bool closed = closed_config(cfg, chain);
            closed ? ++p_closed : ++p_nonclosed;
            bool nontrivial = !closed;
            for (int a = 0; a < N_ARCH; ++a)
            {
                ++cl_onlyif;
                bool bits = own_bits(cfg, a);
                bool st = a < N_X86 && state_ok(cfg, SPEC[a].st);
                if (bits && !st)
                {
                    ++p_bits_no_state;
                    nontrivial = true;
                }
                if (rep[a])
                {
                    if (a >= N_X86)
                        out.violate(sim::fmt("C15/reported-foreign-arch(%s)", SPEC[a].name), "a non-x86 architecture is reported available on an x86 CPU");
                    else if (!bits)
                        out.violate(sim::fmt("C15/reported-without-feature(%s)", SPEC[a].name),
                                    sim::fmt("%s reported available but its CPUID feature bit(s) are clear", SPEC[a].name));
                    else if (!st)
                        out.violate(sim::fmt("C15/reported-without-os-state(%s)", SPEC[a].name),
                                    sim::fmt("%s reported available but the OS has not enabled its register state (osxsave=%u xcr0=0x%x)", SPEC[a].name, cfg.osxsave, cfg.xcr0));
                }
                else if (bits && st)
                    ++p_underreport;
            }
            if (closed)
                for (int c = 0; c < N_X86; ++c)
                    if (rep[c])
                        for (int p = 0; p < N_X86; ++p)
                            if (chain.parent[c][p])
                            {
                                ++cl_mono;
                                if (!rep[p])
                                    out.violate(sim::fmt("C15/non-monotone(%s,%s)", SPEC[c].name, SPEC[p].name),
                                                sim::fmt("closed configuration: %s reported but its ancestor %s is not", SPEC[c].name, SPEC[p].name));
                            }
            uint32_t proj = relevant_projection(cfg);
            d_cfg_report.add(sim::hash_u64(proj, report_mask(rep)));
            if (nontrivial)
                d_nontrivial.add(proj);
        }

        sim::Outcome execute(const Plan& plan, sim::Log& log)
        {
            sim::Outcome out;
            SimCpu cpu; // null machine until the first boot op: nothing advertised, XSAVE off
            xsimd::verif::cpu_source src { SimCpu::cpuid_cb, SimCpu::xgetbv_cb, &cpu, ++g_boot };
            xsimd::verif::current_cpu_source() = &src;
            BootState bs;
            uint64_t prev_boot_mask = ~0ull;

            auto check_ud = [&]()
            {
                ++cl_ud;
                if (cpu.ud_events)
                    out.violate("C15/xgetbv-ud", "XGETBV executed while CR4.OSXSAVE=0 (#UD: the process dies inside detection)");
            };
            auto observe = [&](const Report& rep, const char* how)
            {
                check_ud();
                if (!bs.have_first)
                {
                    bs.have_first = true;
                    bs.first = rep;
                    judge_report(cpu.cfg, rep, out);
                    if (prev_boot_mask != ~0ull && prev_boot_mask != report_mask(rep))
                        ++p_reboot_changed;
                }
                else
                {
                    ++cl_stable;
                    for (int a = 0; a < N_ARCH; ++a)
                        if (rep[a] != bs.first[a])
                            out.violate(sim::fmt("C15/unstable-within-boot(%s)", SPEC[a].name),
                                        sim::fmt("%s: %s disagrees with the first detection of the same boot", how, SPEC[a].name));
                    // a later report in the same boot is judged on its own too
                    judge_report(cpu.cfg, rep, out);
                }
                log.rec(how, report_mask(rep), cpu.ud_events);
            };

            for (const Op& op : plan)
            {
                ++out.ops_executed;
                switch (op.kind)
                {
                case OP_BOOT:
                    if (bs.have_first)
                        prev_boot_mask = report_mask(bs.first);
                    cpu.cfg = op.cfg;
                    cpu.ud_events = 0;
                    src.boot = ++g_boot;
                    bs = BootState();
                    ++c_boots;
                    if (!op.cfg.osxsave)
                        ++p_osx_off;
                    log.rec("boot", relevant_projection(op.cfg), op.cfg.xcr0, op.cfg.osxsave);
                    break;
                case OP_DETECT:
                case OP_DETECT_AGAIN:
                {
                    ++c_detects;
                    Report rep = read_report(xsimd::available_architectures());
                    observe(rep, OPNAME[op.kind]);
                    break;
                }
                case OP_EARLY:
                {
                    // Not part of the simulated machine: what initialisers that ran before main() saw on the REAL one (early.cpp). The reference is
                    // the same detection code driven through a pass-through source from main(); the simulated runs judge that code bit by bit.
                    ++c_early;
                    struct
                    {
                        const char* who;
                        const EarlyObservation* e;
                    } obs[2] = { { "an init_priority(101) object", &g_early_registry }, { "a constructor(101) function", &g_early_ctor } };
                    for (auto& ob : obs)
                        for (int a = 0; a < N_ARCH; ++a)
                        {
                            ++cl_early;
                            if (ob.e->report[a] != real_pass[a])
                                out.violate(sim::fmt("C15/early-initialiser-sees-other-machine(%s)", SPEC[a].name),
                                            sim::fmt("available_architectures() called from %s before main() reports %s %s, the detection run from main() on the same machine says %s",
                                                     ob.who, SPEC[a].name, ob.e->report[a] ? "available" : "unavailable", real_pass[a] ? "available" : "unavailable"));
                        }
                    for (int a = 0; a < N_ARCH; ++a)
                        if (real_main[a] != real_pass[a])
                            out.violate(sim::fmt("C15/early-initialiser-sees-other-machine(%s)", SPEC[a].name), sim::fmt("available_architectures() from main() without a source disagrees with the pass-through source on %s", SPEC[a].name));
                    int n = 0;
                    const int* ids = early_registry_list(n);
                    int expect = -1;
                    for (int i = 0; i < n && expect < 0; ++i)
                        if (real_pass[ids[i]])
                            expect = ids[i];
                    const int before = early_registry_calls();
                    const int got = early_registry_dispatch();
                    ++cl_early;
                    if (early_registry_calls() != before + 1)
                        out.violate("C15/dispatch-call-count", sim::fmt("the dispatcher built before main() invoked its functor %d times in one call", early_registry_calls() - before));
                    if (expect >= 0 && got != expect)
                        out.violate("C15/early-dispatcher-wrong-arch",
                                    sim::fmt("a dispatcher over the default list built by an init_priority(101) object before main() runs the functor with %s; the first architecture of the list available on this machine is %s",
                                             got >= 0 && got < N_ARCH ? SPEC[got].name : "?", SPEC[expect].name));
                    log.rec("early", report_mask(read_early(g_early_registry)), report_mask(read_early(g_early_ctor)), (uint64_t)got);
                    break;
                }
                case OP_CONSTRUCT_FRESH:
                {
                    ++c_fresh;
                    xsimd::detail::supported_arch s;
                    Report rep = read_report(s);
                    observe(rep, "construct_fresh");
                    break;
                }
                case OP_DISPATCH:
                {
                    ++c_dispatches;
                    if (!bs.have_first)
                    {
                        Report rep = read_report(xsimd::available_architectures());
                        observe(rep, "implicit_detect");
                    }
                    const ListEntry& le = lists[op.list % lists.size()];
                    DispIO io;
                    io.lv_in = op.lv;
                    io.cv_in = op.cv;
                    io.tok_in = op.tok;
                    DispIO io2;
                    io2.lv_in = op.lv + 11;
                    io2.cv_in = op.cv - 5;
                    io2.tok_in = op.tok ^ 0x55;
                    int payload_left = 3;
                    long payload_sum = 0;
                    MiscIO mio;
                    if (op.misc)
                        le.misc(mio, op.tok);
                    if (op.owning)
                        payload_left = le.owning(io, io2, &payload_sum);
                    else if (op.twice)
                        le.twice(io, io2);
                    else
                        (op.ref ? le.ref : le.val)(io);
                    check_ud();
                    int expect = -1, depth = 0;
                    for (int i = 0; i < le.n; ++i)
                        if (bs.first[le.ids[i]])
                        {
                            expect = le.ids[i];
                            depth = i;
                            break;
                        }
                    log.rec("dispatch", op.list % lists.size(), (uint64_t)io.arch, (uint64_t)io.calls, (uint64_t)io.ret_got);
                    if (expect < 0)
                    {
                        ++cl_disp_vac; // no member reported available: the property does not say what happens
                        break;
                    }
                    ++cl_disp;
                    if (depth >= 5)
                        ++p_fall5;
                    if (depth == le.n - 1)
                        ++p_last;
                    d_disp.add(sim::hash_u64(sim::hash_u64(op.list % lists.size(), (uint64_t)expect), (uint64_t)depth));
                    const char* ln = le.kind;
                    if (io.calls != 1)
                        out.violate("C15/dispatch-call-count", sim::fmt("functor invoked %d times (list #%u %s)", io.calls, (unsigned)(op.list % lists.size()), ln));
                    if (io.calls >= 1 && io.first_arch != expect)
                        out.violate("C15/dispatch-wrong-arch",
                                    sim::fmt("functor received %s, first reported-available member of list #%u is %s", io.first_arch >= 0 ? SPEC[io.first_arch].name : "?",
                                             (unsigned)(op.list % lists.size()), SPEC[expect].name));
                    if (io.calls == 1)
                    {
                        if (io.lv_seen != op.lv || io.cv_seen != op.cv || io.tok_seen != op.tok || io.lv_after != op.lv * 3 + 1 || io.copies != 0 || io.moves != 1)
                            out.violate("C15/dispatch-forwarding",
                                        sim::fmt("arguments not forwarded: lv %d->%d (after %d), cv %d->%d, tok %ld->%ld, copies=%d moves=%d", op.lv, io.lv_seen, io.lv_after, op.cv,
                                                 io.cv_seen, op.tok, io.tok_seen, io.copies, io.moves));
                        if (io.ret_got != io.ret_expected || (op.ref && !io.ret_is_slot))
                            out.violate("C15/dispatch-return", sim::fmt("returned %ld, functor returned %ld, reference identity %d", io.ret_got, io.ret_expected, (int)io.ret_is_slot));
                    }
                    if (op.misc)
                    {
                        ++cl_disp_misc;
                        static const char* SHAPE[3] = { "void()", "-", "long(int, const string&, double&, vector, const char*)" };
                        for (int k = 0; k < 3; k += 2)
                        {
                            if (mio.calls[k] != 1)
                                out.violate("C15/dispatch-call-count", sim::fmt("functor of shape %s invoked %d times (list #%u %s)", SHAPE[k], mio.calls[k], (unsigned)(op.list % lists.size()), ln));
                            else if (mio.arch[k] != expect)
                                out.violate("C15/dispatch-wrong-arch", sim::fmt("functor of shape %s received %s, expected %s", SHAPE[k], mio.arch[k] >= 0 ? SPEC[mio.arch[k]].name : "?", SPEC[expect].name));
                        }
                        if (mio.calls[2] == 1 && (mio.got_many != mio.want_many || !mio.many_ok))
                            out.violate("C15/dispatch-forwarding", sim::fmt("five mixed arguments: result %ld (functor returned %ld), identities/categories preserved: %d", mio.got_many, mio.want_many, (int)mio.many_ok));
                    }
                    if (op.owning && payload_left != 3)
                        out.violate("C15/dispatch-functor-moved-from", sim::fmt("dispatch(f) with a non-const lvalue functor emptied the caller's object (%d of 3 payload elements left)", payload_left));
                    if (op.twice || op.owning)
                    {
                        // second invocation of the same dispatcher object / second dispatch of the same lvalue functor: again exactly once, same architecture, its own arguments and result
                        ++cl_disp_twice;
                        if (io2.calls != 1)
                            out.violate("C15/dispatch-call-count", sim::fmt("second invocation of a kept dispatcher: functor invoked %d times (list #%u %s)", io2.calls, (unsigned)(op.list % lists.size()), ln));
                        if (io2.calls >= 1 && io2.first_arch != expect)
                            out.violate("C15/dispatch-wrong-arch", sim::fmt("second invocation of a kept dispatcher: functor received %s, expected %s", io2.first_arch >= 0 ? SPEC[io2.first_arch].name : "?",
                                                                            SPEC[expect].name));
                        if (io2.calls == 1)
                        {
                            if (io2.lv_seen != io2.lv_in || io2.cv_seen != io2.cv_in || io2.tok_seen != io2.tok_in || io2.lv_after != io2.lv_in * 3 + 1 || io2.copies != 0 || io2.moves != 1)
                                out.violate("C15/dispatch-forwarding", sim::fmt("second invocation: arguments not forwarded: lv %d->%d (after %d), cv %d->%d, tok %ld->%ld, copies=%d moves=%d", io2.lv_in,
                                                                                io2.lv_seen, io2.lv_after, io2.cv_in, io2.cv_seen, io2.tok_in, io2.tok_seen, io2.copies, io2.moves));
                            if (io2.ret_got != io2.ret_expected)
                                out.violate("C15/dispatch-return", sim::fmt("second invocation returned %ld, functor returned %ld", io2.ret_got, io2.ret_expected));
                        }
                    }
                    break;
                }
                default:
                    break;
                }
            }
            c_cpuid += cpu.cpuid_calls;
            c_xgetbv += cpu.xgetbv_calls;
            if (cpu.other_leaf_calls)
                p_other_leaf += cpu.other_leaf_calls;
            xsimd::verif::current_cpu_source() = nullptr;
            return out;
        }

        // ---------------------------------------------------------------- (de)serialisation
        static Value cfg_json(const Cfg& c)
        {
            Value o = Value::object();
            const char* ln[4] = { "l1", "l7_0", "l7_1", "l8_1" };
            for (int l = 0; l < N_LEAVES; ++l)
            {
                Value regs = Value::array();
                for (int r = 0; r < 4; ++r)
                    regs.push(sim::json::hex32(c.leaf[l][r]));
                o.set(ln[l], regs);
            }
            o.set("osxsave", (unsigned)c.osxsave).set("xcr0", sim::json::hex32(c.xcr0)).set("junk", sim::json::hex64(c.junk));
            // decoded view for the reader (ignored on load)
            Value feats = Value::array();
            for (int a = 0; a < N_X86; ++a)
                if (own_bits(c, a))
                    feats.push(SPEC[a].name);
            o.set("advertised", feats);
            return o;
        }
        static Cfg cfg_from(const Value& o)
        {
            Cfg c;
            const char* ln[4] = { "l1", "l7_0", "l7_1", "l8_1" };
            for (int l = 0; l < N_LEAVES; ++l)
                for (int r = 0; r < 4; ++r)
                    c.leaf[l][r] = (uint32_t)o.at(ln[l]).at((size_t)r).as_u64();
            c.osxsave = (uint32_t)o.at("osxsave").as_u64();
            c.xcr0 = (uint32_t)o.at("xcr0").as_u64();
            c.junk = o.has("junk") ? o.at("junk").as_u64() : 0;
            return c;
        }
        Value to_json(const Plan& plan)
        {
            Value arr = Value::array();
            for (const Op& op : plan)
            {
                Value o = Value::object();
                o.set("op", OPNAME[op.kind]);
                if (op.kind == OP_BOOT)
                {
                    o.set("cfg", cfg_json(op.cfg)).set("template", op.tmpl);
                    Value fl = Value::array();
                    for (auto& f : op.faults)
                        fl.push(f);
                    o.set("faults", fl);
                }
                else if (op.kind == OP_DISPATCH)
                {
                    uint32_t li = op.list % (uint32_t)lists.size();
                    o.set("list", (unsigned)li).set("list_kind", lists[li].kind);
                    Value names = Value::array();
                    for (int i = 0; i < lists[li].n; ++i)
                        names.push(SPEC[lists[li].ids[i]].name);
                    o.set("names", names).set("lv", op.lv).set("cv", op.cv).set("tok", op.tok).set("ret", op.ref ? "ref" : op.twice ? "value,invoked_twice" : op.owning ? "value,owning_lvalue_functor_dispatched_twice" : op.misc ? "value,plus_other_call_shapes" : "value");
                }
                arr.push(o);
            }
            return arr;
        }
        Plan from_json(const Value& arr)
        {
            Plan plan;
            for (const Value& o : arr.a)
            {
                Op op;
                std::string k = o.at("op").as_string();
                int kind = -1;
                for (int i = 0; i < N_OPKIND; ++i)
                    if (k == OPNAME[i])
                        kind = i;
                if (kind < 0)
                    throw std::runtime_error("unknown op " + k);
                op.kind = (OpKind)kind;
                if (op.kind == OP_BOOT)
                {
                    op.cfg = cfg_from(o.at("cfg"));
                    op.tmpl = o.get_str("template", "");
                    if (o.has("faults"))
                        for (auto& f : o.at("faults").a)
                            op.faults.push_back(f.as_string());
                }
                else if (op.kind == OP_DISPATCH)
                {
                    // locate the list by member names (robust against a different list set), fall back to the index
                    op.list = (uint32_t)o.at("list").as_u64();
                    if (o.has("names"))
                    {
                        bool found = false;
                        for (size_t li = 0; li < lists.size() && !found; ++li)
                        {
                            if ((size_t)lists[li].n != o.at("names").a.size())
                                continue;
                            bool same = true;
                            for (int i = 0; i < lists[li].n; ++i)
                                if (o.at("names").a[(size_t)i].as_string() != SPEC[lists[li].ids[i]].name)
                                    same = false;
                            if (same && std::string(lists[li].kind) == o.get_str("list_kind", lists[li].kind))
                            {
                                op.list = (uint32_t)li;
                                found = true;
                            }
                        }
                    }
                    op.lv = (int)o.at("lv").as_i64();
                    op.cv = (int)o.at("cv").as_i64();
                    op.tok = (long)o.at("tok").as_i64();
                    op.ref = o.get_str("ret", "value") == "ref";
                    op.twice = o.get_str("ret", "value") == "value,invoked_twice";
                    op.owning = o.get_str("ret", "value") == "value,owning_lvalue_functor_dispatched_twice";
                    op.misc = o.get_str("ret", "value") == "value,plus_other_call_shapes";
                }
                plan.push_back(op);
            }
            return plan;
        }

        // ---------------------------------------------------------------- shrinking support
        size_t n_ops(const Plan& p) { return p.size(); }
        Plan without_ops(const Plan& p, const std::vector<bool>& keep)
        {
            Plan q;
            for (size_t i = 0; i < p.size(); ++i)
                if (keep[i])
                    q.push_back(p[i]);
            return q;
        }
        std::vector<Plan> simpler(const Plan& p)
        {
            std::vector<Plan> out;
            // one machine lifetime at a time: a boot with the ops that follow it up to the next boot
            if (spans_several_lifetimes(p))
            {
                if (p[0].kind != OP_BOOT)
                {
                    Plan q;
                    for (size_t k = 0; k < p.size() && p[k].kind != OP_BOOT; ++k)
                        q.push_back(p[k]);
                    out.push_back(q);
                }
                for (size_t i = 0; i < p.size(); ++i)
                    if (p[i].kind == OP_BOOT)
                    {
                        Plan q;
                        q.push_back(p[i]);
                        for (size_t k = i + 1; k < p.size() && p[k].kind != OP_BOOT; ++k)
                            q.push_back(p[k]);
                        out.push_back(q);
                    }
            }
            auto push_cfg = [&](size_t i, const Cfg& c)
            {
                Cfg cc = c;
                cc.mirror_osxsave();
                if (!hardware_presentable(cc) || !memcmp(&cc, &p[i].cfg, sizeof(Cfg)))
                    return;
                Plan q = p;
                q[i].cfg = cc;
                q[i].tmpl = "shrunk";
                q[i].faults.clear();
                out.push_back(q);
            };
            for (size_t i = 0; i < p.size(); ++i)
            {
                const Op& op = p[i];
                if (op.kind == OP_BOOT)
                {
                    // coarse first: zero whole registers, then single bits, then OS state towards "everything enabled"
                    for (int l = 0; l < N_LEAVES; ++l)
                        for (int r = 0; r < 4; ++r)
                            if (op.cfg.leaf[l][r] & ~((l == L1 && r == ECX) ? (1u << 27) : 0u))
                            {
                                Cfg c = op.cfg;
                                c.leaf[l][r] = 0;
                                push_cfg(i, c);
                            }
                    for (int l = 0; l < N_LEAVES; ++l)
                        for (int r = 0; r < 4; ++r)
                            for (int b = 0; b < 32; ++b)
                                if (((op.cfg.leaf[l][r] >> b) & 1) && !(l == L1 && r == ECX && b == 27))
                                {
                                    Cfg c = op.cfg;
                                    c.leaf[l][r] &= ~(1u << b);
                                    push_cfg(i, c);
                                }
                    for (int b : { 3, 4, 9, 17, 18 })
                        if ((op.cfg.xcr0 >> b) & 1)
                        {
                            Cfg c = op.cfg;
                            c.xcr0 &= ~(1u << b);
                            push_cfg(i, c);
                        }
                    if (op.cfg.junk)
                    {
                        Cfg c = op.cfg;
                        c.junk = 0;
                        push_cfg(i, c);
                    }
                    if (!op.cfg.osxsave && op.cfg.xcr0 != 0)
                    {
                        Cfg c = op.cfg;
                        c.xcr0 = 0; // unreadable anyway
                        push_cfg(i, c);
                    }
                }
                else if (op.kind == OP_DISPATCH)
                {
                    auto push_op = [&](const Op& o2)
                    {
                        Plan q = p;
                        q[i] = o2;
                        out.push_back(q);
                    };
                    if (op.twice || op.owning || op.misc)
                    {
                        Op o2 = op;
                        o2.twice = o2.owning = o2.misc = false;
                        push_op(o2);
                    }
                    if (op.lv != 1)
                    {
                        Op o2 = op;
                        o2.lv = 1;
                        push_op(o2);
                    }
                    if (op.cv != 1)
                    {
                        Op o2 = op;
                        o2.cv = 1;
                        push_op(o2);
                    }
                    if (op.tok != 1)
                    {
                        Op o2 = op;
                        o2.tok = 1;
                        push_op(o2);
                    }
                    if (op.ref)
                    {
                        Op o2 = op;
                        o2.ref = false;
                        push_op(o2);
                    }
                    // a shorter list of the same program set
                    uint32_t li = op.list % (uint32_t)lists.size();
                    int tried = 0;
                    for (uint32_t k = 0; k < lists.size() && tried < 12; ++k)
                        if (lists[k].n < lists[li].n)
                        {
                            // only sub-sequences of the current list keep the meaning recognisable
                            int j = 0;
                            for (int m = 0; m < lists[li].n && j < lists[k].n; ++m)
                                if (lists[li].ids[m] == lists[k].ids[j])
                                    ++j;
                            if (j == lists[k].n)
                            {
                                Op o2 = op;
                                o2.list = k;
                                push_op(o2);
                                ++tried;
                            }
                        }
                }
            }
            return out;
        }

        // ---------------------------------------------------------------- exhaustive census (thorough tier backstop)
        // all 2^20 feature-bit combinations x 5 OS-state classes x {unrelated bits all 0, all 1}
        template <class W>
        bool custom_command(const sim::Args& args, W& w)
        {
            if (args.cmd != "census")
                return false;
            const uint32_t os_classes[5][2] = { { 0, 0 }, { 1, 1 }, { 1, 3 }, { 1, 7 }, { 1, 0xe7 } };
            uint64_t total = (1ull << 20) * 5 * 2;
            uint64_t limit = args.count ? std::min<uint64_t>(args.count, total) : total;
            for (uint64_t idx = args.offset; idx < limit; idx += args.stride)
            {
                auto build = [&]() -> Plan
                {
                    uint32_t fb = (uint32_t)(idx & 0xfffff);
                    uint32_t oc = (uint32_t)((idx >> 20) % 5);
                    bool ones = (idx >> 20) / 5;
                    Op b;
                    b.kind = OP_BOOT;
                    b.tmpl = ones ? "census(unrelated=1)" : "census(unrelated=0)";
                    for (int l = 0; l < N_LEAVES; ++l)
                        for (int r = 0; r < 4; ++r)
                            b.cfg.leaf[l][r] = ones ? 0xffffffffu : 0u;
                    for (int i = 0; i < 20; ++i)
                        b.cfg.set_bit(FEATURE_BITS[i], (fb >> i) & 1);
                    b.cfg.osxsave = os_classes[oc][0];
                    b.cfg.xcr0 = os_classes[oc][1] | (ones && os_classes[oc][0] ? ((1u << 3) | (1u << 4) | (1u << 9) | (1u << 17) | (1u << 18)) : 0u);
                    b.cfg.mirror_osxsave();
                    Op d;
                    d.kind = OP_DETECT;
                    return Plan { b, d };
                };
                w.process(build(), idx, idx, build);
            }
            return true;
        }
    };
}

int main(int argc, char** argv)
{
    return sim::sim_main<C15Harness>(argc, argv);
}
