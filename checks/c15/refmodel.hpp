// C15 reference model: which CPUID bit(s) and which OS-enabled register state each architecture needs.
// Written from the Intel SDM vol. 2A (CPUID), vol. 1 ch. 13 (XSAVE/XCR0) and the AMD APM vol. 3 (FMA4),
// deliberately NOT from xsimd_cpuid.hpp.
#pragma once
#include <cstdint>
#include <cstring>
#include <string>

namespace c15
{
    // the four CPUID leaves the property quantifies over
    enum Leaf
    {
        L1 = 0, // leaf 1
        L7_0 = 1, // leaf 7 subleaf 0
        L7_1 = 2, // leaf 7 subleaf 1
        L8_1 = 3, // leaf 0x80000001
        N_LEAVES = 4
    };
    enum Reg
    {
        EAX = 0,
        EBX = 1,
        ECX = 2,
        EDX = 3
    };
    enum StateClass
    {
        ST_XMM,
        ST_YMM,
        ST_ZMM,
        ST_NEVER
    };

    struct FeatureBit
    {
        int leaf, reg, bit;
    };

    struct ArchSpec
    {
        const char* name;
        int nbits;
        FeatureBit bits[2];
        StateClass st;
    };

    // ids are positions in this table; the generated arch_id<> specialisations follow the same order
    enum
    {
        A_SSE2,
        A_SSE3,
        A_SSSE3,
        A_SSE4_1,
        A_SSE4_2,
        A_FMA3_SSE,
        A_FMA4,
        A_AVX,
        A_FMA3_AVX,
        A_AVX2,
        A_FMA3_AVX2,
        A_AVXVNNI,
        A_AVX512F,
        A_AVX512CD,
        A_AVX512DQ,
        A_AVX512BW,
        A_AVX512ER,
        A_AVX512PF,
        A_AVX512IFMA,
        A_AVX512VBMI,
        A_AVX512VBMI2,
        A_AVX512VNNI_BW,
        A_AVX512VNNI_VBMI2,
        N_X86,
        A_NEON = N_X86,
        A_NEON64,
        A_I8MM,
        A_SVE,
        A_RVV,
        A_WASM,
        N_ARCH
    };

    static const ArchSpec SPEC[N_ARCH] = {
        { "sse2", 1, { { L1, EDX, 26 } }, ST_XMM },
        { "sse3", 1, { { L1, ECX, 0 } }, ST_XMM },
        { "ssse3", 1, { { L1, ECX, 9 } }, ST_XMM },
        { "sse4_1", 1, { { L1, ECX, 19 } }, ST_XMM },
        { "sse4_2", 1, { { L1, ECX, 20 } }, ST_XMM },
        { "fma3<sse4_2>", 1, { { L1, ECX, 12 } }, ST_YMM }, // VEX-encoded
        { "fma4", 1, { { L8_1, ECX, 16 } }, ST_YMM }, // VEX-encoded
        { "avx", 1, { { L1, ECX, 28 } }, ST_YMM },
        { "fma3<avx>", 2, { { L1, ECX, 12 }, { L1, ECX, 28 } }, ST_YMM },
        { "avx2", 1, { { L7_0, EBX, 5 } }, ST_YMM },
        { "fma3<avx2>", 2, { { L1, ECX, 12 }, { L7_0, EBX, 5 } }, ST_YMM },
        { "avxvnni", 1, { { L7_1, EAX, 4 } }, ST_YMM },
        { "avx512f", 1, { { L7_0, EBX, 16 } }, ST_ZMM },
        { "avx512cd", 1, { { L7_0, EBX, 28 } }, ST_ZMM },
        { "avx512dq", 1, { { L7_0, EBX, 17 } }, ST_ZMM },
        { "avx512bw", 1, { { L7_0, EBX, 30 } }, ST_ZMM },
        { "avx512er", 1, { { L7_0, EBX, 27 } }, ST_ZMM },
        { "avx512pf", 1, { { L7_0, EBX, 26 } }, ST_ZMM },
        { "avx512ifma", 1, { { L7_0, EBX, 21 } }, ST_ZMM },
        { "avx512vbmi", 1, { { L7_0, ECX, 1 } }, ST_ZMM },
        { "avx512vbmi2", 1, { { L7_0, ECX, 6 } }, ST_ZMM },
        { "avx512vnni<avx512bw>", 1, { { L7_0, ECX, 11 } }, ST_ZMM },
        { "avx512vnni<avx512vbmi2>", 2, { { L7_0, ECX, 11 }, { L7_0, ECX, 6 } }, ST_ZMM },
        { "neon", 0, {}, ST_NEVER },
        { "neon64", 0, {}, ST_NEVER },
        { "i8mm<neon64>", 0, {}, ST_NEVER },
        { "sve", 0, {}, ST_NEVER },
        { "rvv", 0, {}, ST_NEVER },
        { "wasm", 0, {}, ST_NEVER },
    };

    // the 20 distinct feature bits of the table (for census enumeration and relevant-bit projection)
    static const FeatureBit FEATURE_BITS[20] = {
        { L1, EDX, 26 }, { L1, ECX, 0 }, { L1, ECX, 9 }, { L1, ECX, 19 }, { L1, ECX, 20 }, { L1, ECX, 12 }, { L8_1, ECX, 16 },
        { L1, ECX, 28 }, { L7_0, EBX, 5 }, { L7_1, EAX, 4 }, { L7_0, EBX, 16 }, { L7_0, EBX, 28 }, { L7_0, EBX, 17 }, { L7_0, EBX, 30 },
        { L7_0, EBX, 27 }, { L7_0, EBX, 26 }, { L7_0, EBX, 21 }, { L7_0, ECX, 1 }, { L7_0, ECX, 6 }, { L7_0, ECX, 11 }
    };

    // simulated machine configuration: full registers of the four leaves + OS state
    struct Cfg
    {
        uint32_t leaf[N_LEAVES][4];
        uint32_t xcr0;
        uint32_t osxsave; // CR4.OSXSAVE, mirrored by hardware into CPUID.1:ECX[27]
        uint64_t junk; // seed for the stable junk answered on leaves outside the four
        Cfg() { memset(this, 0, sizeof *this); }
        bool bit(const FeatureBit& f) const { return (leaf[f.leaf][f.reg] >> f.bit) & 1; }
        void set_bit(const FeatureBit& f, bool v)
        {
            if (v)
                leaf[f.leaf][f.reg] |= (1u << f.bit);
            else
                leaf[f.leaf][f.reg] &= ~(1u << f.bit);
        }
        void mirror_osxsave()
        {
            if (osxsave)
                leaf[L1][ECX] |= (1u << 27);
            else
                leaf[L1][ECX] &= ~(1u << 27);
        }
    };

    inline bool own_bits(const Cfg& c, int arch)
    {
        const ArchSpec& s = SPEC[arch];
        if (s.st == ST_NEVER)
            return false;
        for (int i = 0; i < s.nbits; ++i)
            if (!c.bit(s.bits[i]))
                return false;
        return true;
    }

    inline bool state_ok(const Cfg& c, StateClass st)
    {
        const bool x1 = (c.xcr0 >> 1) & 1, x2 = (c.xcr0 >> 2) & 1;
        const bool zmm = ((c.xcr0 >> 5) & 7) == 7;
        switch (st)
        {
        case ST_XMM:
            return !c.osxsave || x1; // the property exempts SSE from needing OSXSAVE
        case ST_YMM:
            return c.osxsave && x1 && x2;
        case ST_ZMM:
            return c.osxsave && x1 && x2 && zmm;
        default:
            return false;
        }
    }

    // does this configuration obey what hardware can present? (generator post-condition, asserted)
    inline bool hardware_presentable(const Cfg& c)
    {
        if (((c.leaf[L1][ECX] >> 27) & 1) != (c.osxsave ? 1u : 0u))
            return false;
        if (!c.osxsave)
            return true; // XCR0 not readable; its content is irrelevant
        if (!(c.xcr0 & 1))
            return false; // x87 state always enabled
        if (((c.xcr0 >> 2) & 1) && !((c.xcr0 >> 1) & 1))
            return false;
        unsigned z = (c.xcr0 >> 5) & 7;
        if (z != 0 && z != 7)
            return false;
        if (z == 7 && !((c.xcr0 >> 2) & 1))
            return false;
        return true;
    }

    // hardware extension chain between x86 architectures: C++ base-class relation of the tags
    // (filled at start-up from std::is_base_of, so it follows refactorings) plus the two cross-family
    // links of the SDM: AVX extends SSE4.2, AVX-512F extends AVX2 (fma4 stays a 128-bit sibling of avx, as the
    // library models it: no order is imposed between the two). parent[c][p] = p is an ancestor of c.
    struct Chain
    {
        bool parent[N_X86][N_X86];
    };

    inline void close_chain(Chain& ch)
    {
        ch.parent[A_AVX][A_SSE4_2] = true;
        ch.parent[A_AVX512F][A_AVX2] = true;
        for (int k = 0; k < N_X86; ++k)
            for (int i = 0; i < N_X86; ++i)
                for (int j = 0; j < N_X86; ++j)
                    if (ch.parent[i][k] && ch.parent[k][j])
                        ch.parent[i][j] = true;
    }

    inline bool closed_config(const Cfg& c, const Chain& ch)
    {
        for (int i = 0; i < N_X86; ++i)
            if (own_bits(c, i))
                for (int j = 0; j < N_X86; ++j)
                    if (ch.parent[i][j] && !own_bits(c, j))
                        return false;
        return true;
    }

    // projection of a configuration onto the 26 bits the property is about
    inline uint32_t relevant_projection(const Cfg& c)
    {
        uint32_t v = 0;
        for (int i = 0; i < 20; ++i)
            v |= (uint32_t)c.bit(FEATURE_BITS[i]) << i;
        v |= (uint32_t)(c.osxsave ? 1 : 0) << 20;
        if (c.osxsave)
        {
            v |= ((c.xcr0 >> 1) & 3) << 21;
            v |= ((c.xcr0 >> 5) & 7) << 23;
        }
        return v;
    }
}
