// C15 clause 6: the default architecture list of *this build configuration* is ordered best-first
// (no architecture precedes one of its own extensions) and best_arch is its head.
// Compiled once per -m flag set by the driver; prints one JSON line.
#include "common.hpp"

#include <cstdio>
#include <string>
#include <vector>

using namespace c15;

template <class L>
struct walk;
template <class... A>
struct walk<xsimd::arch_list<A...>>
{
    static std::vector<int> ids() { return { arch_id<A>::value... }; }
    static std::vector<bool> supported() { return { A::supported()... }; }
};

static std::string names(const std::vector<int>& v)
{
    std::string s = "[";
    for (size_t i = 0; i < v.size(); ++i)
        s += std::string(i ? "," : "") + "\"" + SPEC[v[i]].name + "\"";
    return s + "]";
}

static std::string check_order(const std::vector<int>& l, const Chain& ch)
{
    for (size_t i = 0; i < l.size(); ++i)
        for (size_t j = i + 1; j < l.size(); ++j)
            if (l[i] < N_X86 && l[j] < N_X86 && ch.parent[l[j]][l[i]])
                return std::string(SPEC[l[i]].name) + " precedes its extension " + SPEC[l[j]].name;
    return "";
}

template <class T>
struct best_id
{
    static constexpr int value = arch_id<T>::value;
};
template <>
struct best_id<xsimd::unavailable>
{
    static constexpr int value = -1;
};

int main()
{
    Chain ch = build_chain();
    std::vector<int> sup = walk<xsimd::supported_architectures>::ids();
    std::vector<int> all = walk<xsimd::all_x86_architectures>::ids();
    std::vector<bool> all_sup = walk<xsimd::all_x86_architectures>::supported();
    int best = best_id<xsimd::best_arch>::value;
    std::string v;
    std::string cls;
    if (!(v = check_order(all, ch)).empty())
        cls = "C15/list-order(all_x86_architectures)";
    else if (!(v = check_order(sup, ch)).empty())
        cls = "C15/list-order(supported_architectures)";
    else if ((sup.empty() ? -1 : sup[0]) != best)
    {
        cls = "C15/best-not-head";
        v = "best_arch is not the head of supported_architectures";
    }
    else
    {
        // supported_architectures must be exactly the supported() members of the full list, in its order
        std::vector<int> expect;
        for (size_t i = 0; i < all.size(); ++i)
            if (all_sup[i])
                expect.push_back(all[i]);
        if (expect != sup)
        {
            cls = "C15/list-order(supported_architectures)";
            v = "supported_architectures is not the order-preserving filter of the full list";
        }
    }
    printf("{\"supported\":%s,\"best\":\"%s\",\"all\":%s,\"violation_class\":\"%s\",\"detail\":\"%s\"}\n", names(sup).c_str(),
           best >= 0 ? SPEC[best].name : "<none>", names(all).c_str(), cls.c_str(), v.c_str());
    return cls.empty() ? 0 : 1;
}
