#!/usr/bin/env python3
"""Generate the arch_list instantiations the C15 harness dispatches over.

Each list is a different *program* (a template instantiation), so the set is a build-time choice. It is drawn
from a FIXED generator seed (not VERIF_SEED) so that a replay file, which names a list by index and by member
names, can be rebuilt without knowing the seed of the run that found it. Which list a dispatch op uses is a
run-time, VERIF_SEED-driven choice.

usage: gen_lists.py OUTDIR N_RANDOM N_PARTS
"""
import random
import sys

FULL = [  # order of xsimd::all_x86_architectures at the pinned commit; only used to derive sub-lists
    "avx512vnni<avx512vbmi2>", "avx512vbmi2", "avx512vbmi", "avx512ifma", "avx512pf", "avx512vnni<avx512bw>",
    "avx512bw", "avx512er", "avx512dq", "avx512cd", "avx512f", "avxvnni", "fma3<avx2>", "avx2", "fma3<avx>",
    "avx", "fma4", "fma3<sse4_2>", "sse4_2", "sse4_1", "ssse3", "sse3", "sse2",
]


def cpp(name):
    if "<" in name:
        outer, inner = name[:-1].split("<")
        return "xsimd::%s<xsimd::%s>" % (outer, inner)
    return "xsimd::" + name


def main():
    outdir, n_random, n_parts = sys.argv[1], int(sys.argv[2]), int(sys.argv[3])
    compiled = set(sys.argv[4].split(",")) if len(sys.argv) > 4 and sys.argv[4] else None  # ISAs the translation units are compiled for
    rng = random.Random(0xC15)
    lists = []
    lists.append(("full", None))  # the library's own all_x86_architectures alias
    lists.append(("supported", None))  # the library's own supported_architectures alias
    lists.append(("default", None))  # xsimd::dispatch(f) with no template argument
    for i in range(1, len(FULL)):
        lists.append(("suffix", FULL[i:]))
    for i in range(1, len(FULL)):
        lists.append(("prefix", FULL[:i]))
    for a in FULL:
        lists.append(("single", [a]))
    for a in FULL[:-1]:
        lists.append(("pair", [a, "sse2"]))
    seen = set()
    while sum(1 for k, _ in lists if k == "random") < n_random:
        p = rng.choice([0.15, 0.3, 0.5, 0.7])
        sub = [a for a in FULL if rng.random() < p]
        if len(sub) < 2 or tuple(sub) in seen:
            continue
        seen.add(tuple(sub))
        lists.append(("random", sub))
    n_shuffled = max(8, n_random // 8)
    while sum(1 for k, _ in lists if k == "shuffled") < n_shuffled:
        sub = [a for a in FULL if rng.random() < 0.4]
        if len(sub) < 3:
            continue
        rng.shuffle(sub)
        if tuple(sub) in seen:
            continue
        seen.add(tuple(sub))
        lists.append(("shuffled", sub))

    # every list names at least one ISA the unit is compiled for: dispatching over a list made only of foreign ISAs is legal but pointless (no kernel
    # of the unit could serve it), and keeping such lists out keeps the harness compiling should a library change start rejecting them at compile time
    if compiled is not None:
        lists = [(k, m) for k, m in lists if m is None or any(a in compiled for a in m)]
    per = (len(lists) + n_parts - 1) // n_parts
    for part in range(n_parts):
        chunk = lists[part * per:(part + 1) * per]
        with open("%s/lists_%d.cpp" % (outdir, part), "w") as f:
            f.write('#include "common.hpp"\nnamespace c15 {\n')
            f.write("const ListEntry* lists_part_%d(int* n) {\n" % part)
            f.write("  static const ListEntry e[] = {\n")
            for kind, members in chunk:
                if kind == "default":
                    f.write('    make_default_entry("default"),\n')
                    continue
                if kind == "full":
                    t = "xsimd::all_x86_architectures"
                elif kind == "supported":
                    t = "xsimd::supported_architectures"
                else:
                    t = "xsimd::arch_list<%s>" % ", ".join(cpp(m) for m in members)
                f.write('    make_entry<%s>("%s"),\n' % (t, kind))
            f.write("  };\n  *n = (int)(sizeof e / sizeof e[0]);\n  return e;\n}\n}\n")
    with open("%s/lists_index.cpp" % outdir, "w") as f:
        f.write('#include "common.hpp"\nnamespace c15 {\n')
        for part in range(n_parts):
            f.write("const ListEntry* lists_part_%d(int* n);\n" % part)
        f.write("int lists_parts() { return %d; }\n" % n_parts)
        f.write("const ListEntry* lists_part(int part, int* n) {\n  switch (part) {\n")
        for part in range(n_parts):
            f.write("  case %d: return lists_part_%d(n);\n" % (part, part))
        f.write("  }\n  *n = 0; return nullptr;\n}\n}\n")
    print(len(lists))


if __name__ == "__main__":
    main()
