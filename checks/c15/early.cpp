// C15: a translation unit that behaves like a user's kernel registry - it asks the library which architectures are available, and builds a
// dispatcher, BEFORE main() runs, from initialisers whose order relative to the library's own objects the library cannot choose
// (init_priority(101) is the earliest slot user code can ask for; a constructor function is the other common way to get there).
// No simulated CPU source is installed at that time, so this exercises the library's real detection path on the real machine; the harness
// compares what was seen here with what the same process sees from main() and through a pass-through source (harness.cpp, OP_EARLY).
#include "common.hpp"

namespace c15
{
    EarlyObservation g_early_registry, g_early_ctor; // constant (zero) initialisation: nothing that runs later resets them

    namespace
    {
        int g_calls; // zero-initialised
        struct Picker
        {
            template <class A>
            int operator()(A) const
            {
                ++g_calls;
                return arch_id<A>::value;
            }
        };
        void observe(EarlyObservation& e)
        {
            xsimd::detail::supported_arch s = xsimd::available_architectures();
            Report r = read_report(s);
            for (int i = 0; i < N_ARCH; ++i)
                e.report[i] = r[i];
            e.taken = true;
        }
        using dispatcher_t = decltype(xsimd::dispatch(Picker {}));
        struct Registry
        {
            dispatcher_t d;
            Registry()
                : d(xsimd::dispatch(Picker {}))
            {
                observe(g_early_registry);
            }
        };
        Registry g_registry __attribute__((init_priority(101)));

        __attribute__((constructor(101))) void early_ctor() { observe(g_early_ctor); }

        struct ListIds
        {
            int ids[64];
            int n = 0;
            template <class A>
            void operator()(A)
            {
                ids[n++] = arch_id<A>::value;
            }
        };
    }

    int early_registry_dispatch() { return g_registry.d(); }
    int early_registry_calls() { return g_calls; }
    const int* early_registry_list(int& n)
    {
        static ListIds l = []
        {
            ListIds x;
            xsimd::supported_architectures::for_each(x);
            return x;
        }();
        n = l.n;
        return l.ids;
    }
}
