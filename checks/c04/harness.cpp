// C04 harness: loads/stores/gather/scatter against a simulated address space (DESIGN.md 6.3).
// Real code: every load_*/store_* form, batch_bool and complex variants, gather/scatter, broadcast/ctor/get/insert,
// on every x86 architecture this host executes + emulated<128/256>.
// Stub: the address space around the buffer (SimMem: guard pages, seeded placement), MMU faults captured as events.
#include "ops.hpp"

#include "../../sim/core.hpp"

#include <cpuid.h>
#include <csetjmp>
#include <csignal>
#include <cstring>
#include <map>
#include <stdexcept>
#include <sys/mman.h>
#include <ucontext.h>

#ifndef MAP_FIXED_NOREPLACE
#define MAP_FIXED_NOREPLACE 0x100000
#endif

using namespace c04;
using sim::Counter;
using sim::json::Value;

namespace
{
    const size_t PAGE = 4096;
    const size_t DATA = 3 * PAGE; // D0, H, D1: the middle page is ordinary data except during a HOLE-placed gather/scatter

    // ------------------------------------------------------------------ SimMem
    struct SimMem
    {
        unsigned char* base = nullptr; // [G0][D0][H][D1][G1]
        unsigned char* data = nullptr; // D0
        unsigned char shadow[DATA]; // reference model of the data pages
        bool guard_ro = false;
        void init()
        {
            if (base)
                return;
            void* hint = (void*)0x5b0000000000ull;
            void* p = mmap(hint, 5 * PAGE, PROT_READ | PROT_WRITE, MAP_PRIVATE | MAP_ANONYMOUS | MAP_FIXED_NOREPLACE, -1, 0);
            if (p == MAP_FAILED || p != hint)
            {
                if (p != MAP_FAILED)
                    munmap(p, 5 * PAGE);
                p = mmap(nullptr, 5 * PAGE, PROT_READ | PROT_WRITE, MAP_PRIVATE | MAP_ANONYMOUS, -1, 0);
                if (p == MAP_FAILED)
                    throw std::runtime_error("SimMem: cannot map arena");
            }
            base = (unsigned char*)p;
            data = base + PAGE;
        }
        void setup(bool ro, uint64_t fill_seed)
        {
            init();
            guard_ro = ro;
            mprotect(base, PAGE, PROT_READ | PROT_WRITE);
            mprotect(base + 4 * PAGE, PAGE, PROT_READ | PROT_WRITE);
            mprotect(base + 2 * PAGE, PAGE, PROT_READ | PROT_WRITE);
            memset(base, 0xc7, PAGE);
            memset(base + 4 * PAGE, 0xc7, PAGE);
            sim::Rng r(fill_seed);
            for (size_t i = 0; i < DATA; i += 8)
            {
                uint64_t v = r.next();
                memcpy(data + i, &v, 8);
            }
            memcpy(shadow, data, DATA);
            int prot = ro ? PROT_READ : PROT_NONE;
            mprotect(base, PAGE, prot);
            mprotect(base + 4 * PAGE, PAGE, prot);
        }
        void hole(bool on) { mprotect(base + 2 * PAGE, PAGE, on ? PROT_NONE : (PROT_READ | PROT_WRITE)); }
    };

    SimMem g_mem;
    sigjmp_buf g_jb;
    volatile sig_atomic_t g_armed = 0;
    struct FaultInfo
    {
        volatile uintptr_t addr;
        volatile int sig;
        volatile int code;
        volatile long err;
    } g_fault;

    void on_fault(int sig, siginfo_t* si, void* uc)
    {
        if (!g_armed)
        {
            sim::crash_handler(sig);
            return;
        }
        g_armed = 0;
        g_fault.addr = (uintptr_t)si->si_addr;
        g_fault.sig = sig;
        g_fault.code = si->si_code;
        g_fault.err = (long)((ucontext_t*)uc)->uc_mcontext.gregs[REG_ERR];
        siglongjmp(g_jb, 1);
    }

    // ------------------------------------------------------------------ which architectures can this CPU execute (own CPUID code, independent of xsimd)
    struct HostCpu
    {
        unsigned l1c = 0, l1d = 0, l7b = 0, l7c = 0, l71a = 0;
        bool ymm = false, zmm = false;
        HostCpu()
        {
            unsigned a, b, c, d;
            if (__get_cpuid(1, &a, &b, &c, &d))
            {
                l1c = c;
                l1d = d;
            }
            if (__get_cpuid_count(7, 0, &a, &b, &c, &d))
            {
                l7b = b;
                l7c = c;
            }
            if (__get_cpuid_count(7, 1, &a, &b, &c, &d))
                l71a = a;
            if ((l1c >> 27) & 1)
            {
                unsigned lo, hi;
                __asm__("xgetbv" : "=a"(lo), "=d"(hi) : "c"(0));
                ymm = (lo & 6) == 6;
                zmm = ymm && ((lo >> 5) & 7) == 7;
            }
        }
        bool can(const std::string& arch) const
        {
            auto b = [](unsigned r, int i)
            { return (r >> i) & 1; };
            bool fma = b(l1c, 12), avx = b(l1c, 28) && ymm, avx2 = b(l7b, 5) && ymm;
            bool f = b(l7b, 16) && zmm, cd = f && b(l7b, 28), dq = cd && b(l7b, 17), bw = dq && b(l7b, 30), ifma = bw && b(l7b, 21), vbmi = ifma && b(l7c, 1),
                 vbmi2 = vbmi && b(l7c, 6), vnni = b(l7c, 11);
            if (arch == "sse2")
                return b(l1d, 26);
            if (arch == "sse3")
                return b(l1c, 0);
            if (arch == "ssse3")
                return b(l1c, 9);
            if (arch == "sse4_1")
                return b(l1c, 19);
            if (arch == "sse4_2")
                return b(l1c, 20);
            if (arch == "fma3<sse4_2>")
                return b(l1c, 20) && fma && ymm;
            if (arch == "avx")
                return avx;
            if (arch == "fma3<avx>")
                return avx && fma;
            if (arch == "avx2")
                return avx2;
            if (arch == "fma3<avx2>")
                return avx2 && fma;
            if (arch == "avxvnni")
                return avx2 && b(l71a, 4);
            if (arch == "avx512f")
                return f;
            if (arch == "avx512cd")
                return cd;
            if (arch == "avx512dq")
                return dq;
            if (arch == "avx512bw")
                return bw;
            if (arch == "avx512ifma")
                return ifma;
            if (arch == "avx512vbmi")
                return vbmi;
            if (arch == "avx512vbmi2")
                return vbmi2;
            if (arch == "avx512vnni<avx512bw>")
                return bw && vnni;
            if (arch == "avx512vnni<avx512vbmi2>")
                return vbmi2 && vnni;
            if (arch.compare(0, 8, "emulated") == 0)
                return true;
            return false;
        }
    };

    // ------------------------------------------------------------------ plan
    enum PlaceKind
    {
        PL_R, // window end == first byte of the upper guard page
        PL_L, // window start == first byte of the lower data page (right after the lower guard)
        PL_MID, // window starts `off` elements after a cache-line start (off may make it straddle a line)
        PL_PAGE, // window straddles the boundary between the first two data pages, `off` elements before it
        PL_HOLE, // gather/scatter only: the indexed elements lie on both sides of an unmapped page; nothing in between may be touched
        N_PLACE
    };
    const char* PLNAME[N_PLACE] = { "R", "L", "MID", "PAGE", "HOLE" };

    struct Op
    {
        uint32_t entry = 0; // index into the op table
        int place = PL_R;
        uint32_t off = 0;
        uint64_t reg_seed = 0;
        std::vector<int64_t> idx; // gather/scatter
        std::string idx_family;
    };
    struct Plan
    {
        bool guard_ro = false;
        uint64_t fill_seed = 0;
        std::vector<Op> ops;
    };

    Counter c_ops("sim", "memory_ops"), c_runs("sim", "address_space_setups");
    Counter fc_none("fault_configured", "guard_pages_PROT_NONE"), fc_ro("fault_configured", "guard_pages_read_only"), fc_R("fault_configured", "window_flush_against_upper_guard"),
        fc_L("fault_configured", "window_flush_against_lower_guard"), fc_mid("fault_configured", "window_at_line_offset"), fc_page("fault_configured", "window_straddles_page_boundary"),
        fc_hole("fault_configured", "gather_scatter_across_unmapped_hole");
    Counter ff_trap("info", "mmu_fault_captured(only_on_violation)");
    Counter ff_R("fault_fired", "window_end_is_last_mapped_byte"), ff_L("fault_fired", "window_start_is_first_mapped_byte"), ff_line("fault_fired", "window_straddles_cache_line"),
        ff_page("fault_fired", "window_straddles_page_boundary"), ff_ro("fault_fired", "neighbour_page_read_only(write_trap)"), ff_none("fault_fired", "neighbour_page_unmapped(read+write_trap)"),
        ff_hole("fault_fired", "indexed_elements_on_both_sides_of_unmapped_hole");
    Counter cl_load("clause", "load(register_bytes==window,arena_unchanged,no_fault)"), cl_store("clause", "store(arena==shadow_with_window_overwritten,no_fault)"),
        cl_bool("clause", "bool(mask_and_get_agree_with_bytes|bytes_are_0_or_1)"), cl_cplx("clause", "complex(deinterleave/interleave)"),
        cl_gs("clause", "gather_scatter(exactly_indexed_elements)"), cl_pure("clause", "numbering(broadcast,ctor,get,insert)"),
        cl_seq("clause", "sequence(library_access,caller's_typed_access,library_access)_in_one_scope"),
        cl_cvt("clause", "converting_load_store(footprint_is_lanes*sizeof(U),lane_i<->element_i)"), cl_cvtgs("clause", "converting_gather_scatter(exactly_indexed_elements)");
    Counter p_straddle_line("probe", "window_straddled_a_cache_line"), p_straddle_page("probe", "window_straddled_the_page_boundary"), p_touch_guard("probe", "window_touched_a_guard_edge"),
        p_neg_idx("probe", "gather_scatter_with_negative_index"), p_aligned_form("probe", "aligned_form_executed"), p_unplaceable("probe", "aligned_bool_window_not_flush(gap_to_guard)"),
        p_hole_fallback("probe", "hole_placement_not_possible(1-byte_index_or_shrunk_indices)"), p_unsigned_idx("probe", "gather_scatter_with_unsigned_index_batch"),
        p_huge_idx("probe", "gather_scatter_with_top_bit_of_the_unsigned_index_set");
    Counter p_unplaceable_gs("info", "gather_scatter_op_skipped(index_span_larger_than_the_simulated_address_space)");

    sim::DistinctSet d_all("op_placement_tuples"), d_nontrivial("edge_or_straddle_tuples");

    struct C04Harness : sim::HarnessBase
    {
        using Plan = ::Plan;
        static const char* id() { return "C04"; }
        std::vector<OpEntry> table;
        std::map<std::string, uint32_t> index;
        std::vector<std::string> archs_run, archs_skipped;
        uint64_t max_ops = 30;
        bool cvt_values = true; // judge lane values of converting forms (off in the -ffast-math build: the conversion arithmetic is not C04's subject)
        std::string only_arch;

        static std::string key(const OpEntry& e) { return std::string(e.arch) + "|" + e.tname + "|" + e.form; }

        C04Harness()
        {
            std::vector<OpEntry> all;
            register_sse2(all);
            register_sse3(all);
            register_ssse3(all);
            register_sse4_1(all);
            register_sse4_2(all);
            register_fma3_sse(all);
            register_avx(all);
            register_fma3_avx(all);
            register_avx2(all);
            register_fma3_avx2(all);
            register_avxvnni(all);
            register_avx512f(all);
            register_avx512cd(all);
            register_avx512dq(all);
            register_avx512bw(all);
            register_avx512ifma(all);
            register_avx512vbmi(all);
            register_avx512vbmi2(all);
            register_avx512vnni_bw(all);
            register_avx512vnni_vbmi2(all);
            register_emulated128(all);
            register_emulated256(all);
            register_emulated512(all);
            HostCpu host;
            std::map<std::string, bool> seen;
            for (auto& e : all)
            {
                bool ok = host.can(e.arch);
                if (!seen.count(e.arch))
                {
                    seen[e.arch] = ok;
                    (ok ? archs_run : archs_skipped).push_back(e.arch);
                }
                if (ok)
                    table.push_back(e);
            }
            for (size_t i = 0; i < table.size(); ++i)
                index[key(table[i])] = (uint32_t)i;
            post_install();
        }
        // our fault handler sits on top of the generic crash handler and chains to it when no op is armed
        void post_install()
        {
            struct sigaction sa;
            memset(&sa, 0, sizeof sa);
            sa.sa_sigaction = on_fault;
            sa.sa_flags = SA_SIGINFO | SA_NODEFER;
            sigemptyset(&sa.sa_mask);
            sigaction(SIGSEGV, &sa, nullptr);
            sigaction(SIGBUS, &sa, nullptr);
            sigaction(SIGABRT, &sa, nullptr); // xsimd's own assert(is_aligned(..)) in debug builds: an event of the op, not the death of the worker
        }
        void configure(const sim::Params& p)
        {
            max_ops = p.u64("max_ops", 30);
            only_arch = p.str("only_arch", "");
            cvt_values = p.u64("cvt_values", 1) != 0;
        }
        uint64_t shrink_budget() const { return 1500; }

        // guard pages must really trap here, otherwise the check would pass vacuously
        void startup_selftest()
        {
            // sim_main installs its crash handlers after this; ours must stay in charge of SIGSEGV/SIGBUS (it chains when not armed)
            g_mem.setup(false, 1);
            volatile unsigned char sink = 0;
            if (sigsetjmp(g_jb, 1) == 0)
            {
                g_armed = 1;
                sink = *(volatile unsigned char*)(g_mem.data + DATA); // first byte of the upper guard
                g_armed = 0;
                throw std::runtime_error("C04 self-test: a 1-byte overrun into the guard page did not trap");
            }
            if (g_fault.addr != (uintptr_t)(g_mem.data + DATA))
                throw std::runtime_error("C04 self-test: fault address is not the first byte of the guard page");
            g_mem.setup(true, 1);
            if (sigsetjmp(g_jb, 1) == 0)
            {
                g_armed = 1;
                *(volatile unsigned char*)(g_mem.data - 1) = 0xc7; // same-value write into the read-only lower guard
                g_armed = 0;
                throw std::runtime_error("C04 self-test: a same-value write into the read-only guard did not trap");
            }
            g_mem.hole(true);
            if (sigsetjmp(g_jb, 1) == 0)
            {
                g_armed = 1;
                sink = *(volatile unsigned char*)(g_mem.data + PAGE); // first byte of the hole
                g_armed = 0;
                throw std::runtime_error("C04 self-test: a read inside the unmapped hole did not trap");
            }
            g_mem.hole(false);
            (void)sink;
            if (table.empty())
                throw std::runtime_error("C04 self-test: no executable architecture");
        }

        // ------------------------------------------------------------------ geometry
        static size_t window_bytes(const OpEntry& e)
        {
            switch (e.kind)
            {
            case K_BOOL_LOAD:
            case K_BOOL_STORE:
                return (size_t)e.lanes;
            case K_CPLX_LOAD:
            case K_CPLX_STORE:
                return (size_t)2 * e.lanes * e.elem;
            case K_CVT_LOAD:
            case K_CVT_STORE:
                return (size_t)e.lanes * e.mem_elem;
            case K_CCVT_LOAD:
            case K_CCVT_STORE:
                return (size_t)2 * e.lanes * e.mem_elem;
            default: // incl. the split complex forms: each of their two windows holds `lanes` reals
                return (size_t)e.lanes * e.elem;
            }
        }
        static bool is_split(const OpEntry& e) { return e.kind == K_CPLX2_LOAD || e.kind == K_CPLX2_STORE; }
        static bool is_gs(const OpEntry& e) { return e.kind == K_GATHER || e.kind == K_SCATTER || e.kind == K_CVT_GATHER || e.kind == K_CVT_SCATTER || e.kind == K_SEQ_GATHER || e.kind == K_SEQ_SCATTER; }
        static bool is_cvt(const OpEntry& e) { return e.kind >= K_CVT_LOAD && e.kind <= K_CVT_SCATTER; }
        // small integers that every element type represents exactly: the currency of the converting forms
        static void enc(const char* t, long v, unsigned char* dst)
        {
            switch (t[0])
            {
            case 'f':
                if (t[1] == '3')
                {
                    float f = (float)v;
                    memcpy(dst, &f, 4);
                }
                else
                {
                    double d = (double)v;
                    memcpy(dst, &d, 8);
                }
                break;
            default:
            {
                int bytes = atoi(t + 1) / 8;
                int64_t x = v;
                memcpy(dst, &x, (size_t)bytes); // little endian two's complement truncation
            }
            }
        }
        static long dec(const char* t, const unsigned char* src, bool& exact)
        {
            exact = true;
            if (t[0] == 'f')
            {
                double d;
                if (t[1] == '3')
                {
                    float f;
                    memcpy(&f, src, 4);
                    d = f;
                }
                else
                    memcpy(&d, src, 8);
                if (!(d >= -1e6 && d <= 1e6) || d != (double)(long)d)
                {
                    exact = false;
                    return 0;
                }
                return (long)d;
            }
            int bytes = atoi(t + 1) / 8;
            if (t[0] == 'u')
            {
                uint64_t x = 0;
                memcpy(&x, src, (size_t)bytes);
                return (long)x;
            }
            int64_t x = 0;
            memcpy(&x, src, (size_t)bytes);
            int sh = 64 - 8 * bytes;
            return (long)((int64_t)((uint64_t)x << sh) >> sh);
        }
        static long small_value(const OpEntry& e, uint64_t r)
        {
            bool any_unsigned = e.tname[0] == 'u' || e.mem_tname[0] == 'u';
            return any_unsigned ? (long)(r % 101) : (long)(r % 101) - 50;
        }
        static size_t elem_bytes(const OpEntry& e)
        {
            switch (e.kind)
            {
            case K_BOOL_LOAD:
            case K_BOOL_STORE:
                return 1;
            case K_CPLX_LOAD:
            case K_CPLX_STORE:
                return (size_t)2 * e.elem;
            case K_CVT_LOAD:
            case K_CVT_STORE:
            case K_CVT_GATHER:
            case K_CVT_SCATTER:
                return (size_t)e.mem_elem;
            case K_CCVT_LOAD:
            case K_CCVT_STORE:
                return (size_t)2 * e.mem_elem;
            default:
                return (size_t)e.elem;
            }
        }

        // offset (bytes from the start of D0) of a window/array of `bytes` bytes with pointer alignment `al`
        static size_t place_offset(int place, uint32_t off, size_t bytes, size_t al, size_t eb)
        {
            size_t o;
            switch (place)
            {
            case PL_R:
                o = DATA - bytes;
                o -= o % al; // aligned forms whose window is smaller than the alignment cannot sit flush: nearest aligned slot below
                return o;
            case PL_L:
                return 0;
            case PL_MID:
            {
                // every offset the pointer contract allows: steps of the required pointer alignment (which is smaller than the element for std::complex)
                size_t line = 64 * (4 + (off / 64) % 8);
                o = line + (off % 64) * std::min(al, eb) % 128;
                o -= o % al;
                if (o + bytes > DATA)
                    o = (DATA - bytes) - ((DATA - bytes) % al);
                return o;
            }
            case PL_HOLE: // not a gather/scatter, or no room for the hole: same as R
                o = DATA - bytes;
                o -= o % al;
                return o;
            default: // PL_PAGE
            {
                size_t back = ((size_t)off * std::min(al, eb)) % (bytes ? bytes : 1);
                if (back == 0)
                    back = std::min(al, eb);
                o = PAGE - back;
                o -= o % al;
                return o;
            }
            }
        }

        // ------------------------------------------------------------------ generation
        // largest usable index: limited by the index type (same width as T; the signed maximum also suits the unsigned batches) and by one page of span
        static int64_t idx_max(const OpEntry& e, size_t eb)
        {
            int64_t tmax = e.elem >= 8 ? (int64_t)1 << 40 : ((int64_t)1 << (8 * e.elem - 1)) - 1;
            return std::min<int64_t>(tmax, (int64_t)(PAGE / eb) - 1);
        }
        // HOLE placement: element 0..nb-1 end flush at the hole, elements hb..hb+nb-1 start right after it
        static bool hole_possible(const OpEntry& e, size_t eb)
        {
            int64_t tmax = e.elem >= 8 ? (int64_t)1 << 40 : ((int64_t)1 << (8 * e.elem - 1)) - 1;
            return e.lanes >= 2 && (int64_t)(2 * e.lanes + PAGE / eb) - 1 <= tmax;
        }
        static bool hole_valid(const OpEntry& e, size_t eb, const std::vector<int64_t>& idx)
        {
            if (!hole_possible(e, eb) || idx.empty())
                return false;
            const int64_t nb = e.lanes, hb = nb + (int64_t)(PAGE / eb);
            bool below = false, above = false;
            for (int64_t v : idx)
            {
                if (v >= 0 && v < nb)
                    below = true;
                else if (v >= hb && v < hb + nb)
                    above = true;
                else
                    return false;
            }
            return below && above;
        }

        void gen_idx(sim::Rng& rng, const OpEntry& e, Op& op)
        {
            const int L = e.lanes;
            const size_t eb = elem_bytes(e);
            const int64_t imax = idx_max(e, eb);
            const bool scatter = e.kind == K_SCATTER || e.kind == K_CVT_SCATTER || e.kind == K_SEQ_SCATTER || e.kind == K_SEQ_GATHER; // (the typed stores of seq: gather need distinct targets too)
            op.idx.resize((size_t)L);
            if (op.place == PL_HOLE && hole_possible(e, eb))
            {
                op.idx_family = "hole";
                const int64_t nb = L, hb = nb + (int64_t)(PAGE / eb);
                std::vector<int64_t> cand;
                for (int64_t k = 0; k < nb; ++k)
                {
                    cand.push_back(k);
                    cand.push_back(hb + k);
                }
                for (size_t k = cand.size(); k > 1; --k)
                    std::swap(cand[k - 1], cand[rng.below(k)]);
                // the two elements that touch the hole are always indexed
                std::vector<int64_t> pick { nb - 1, hb };
                for (int64_t v : cand)
                    if ((int)pick.size() < L && v != nb - 1 && v != hb)
                        pick.push_back(v);
                for (size_t k = pick.size(); k > 1; --k)
                    std::swap(pick[k - 1], pick[rng.below(k)]);
                for (int i = 0; i < L; ++i)
                    op.idx[(size_t)i] = pick[(size_t)i];
                if (!scatter && rng.coin()) // gathers may repeat an element
                    op.idx[rng.below((uint64_t)L)] = op.idx[rng.below((uint64_t)L)];
                if (!hole_valid(e, eb, op.idx))
                    op.idx[0] = nb - 1, op.idx[(size_t)L - 1] = hb;
                return;
            }
            if (e.idx_unsigned && rng.chance(1, 3))
            {
                // indices with the top bit of the unsigned index type set: the array is then larger than half the index range, and a kernel
                // that treats the index batch as signed ends up below the base pointer
                op.idx_family = "huge-unsigned";
                const int bits = 8 * e.elem;
                const int64_t top = bits >= 64 ? (int64_t)1 << 40 : (int64_t)1 << (bits - 1);
                const int64_t room = bits >= 64 ? (int64_t)1 << 40 : top - 1; // values above `top` that still fit the type
                const int64_t span = std::min<int64_t>(std::min<int64_t>(room, (int64_t)(PAGE / eb) - 1), 4095);
                const int64_t base = top + (room - span > 0 ? (int64_t)rng.below((uint64_t)(room - span) / 2 + 1) : 0);
                std::vector<int64_t> offs;
                for (int64_t k = 0; k <= span && (int)offs.size() < 4 * L; ++k)
                    offs.push_back(span <= 4 * L ? k : (int64_t)rng.below((uint64_t)span + 1));
                for (int i = 0; i < L; ++i)
                    op.idx[(size_t)i] = base + offs[rng.below(offs.size())];
                if (scatter)
                {
                    // distinct: walk upwards inside [base, base + span]
                    for (int i = 0; i < L; ++i)
                        for (int guard = 0; guard < 8192; ++guard)
                        {
                            bool dup = false;
                            for (int j = 0; j < i; ++j)
                                dup |= op.idx[(size_t)j] == op.idx[(size_t)i];
                            if (!dup)
                                break;
                            op.idx[(size_t)i] = op.idx[(size_t)i] + 1 > base + span ? base : op.idx[(size_t)i] + 1;
                        }
                }
                return;
            }
            if (e.elem == 1 && rng.chance(1, 5))
            {
                // a window of consecutive indices that slides across the wrap point of the 8-bit index type: 250..255,0,1,.. for an unsigned index
                // batch, 120..127,-128,-127,.. for a signed one. Consecutive modulo 2^8, but not adjacent in memory (the whole range of an 8-bit
                // index still fits the arena; for wider index types it would not).
                op.idx_family = "wrap-window";
                const int64_t wrap = e.idx_unsigned ? 256 : 128;
                const int64_t first = wrap - 1 - (int64_t)rng.below((uint64_t)std::min(L - 1, 127)); // at least one lane before and one after the wrap
                for (int i = 0; i < L; ++i)
                {
                    int64_t v = first + i;
                    if (v >= wrap)
                        v -= 256;
                    op.idx[(size_t)i] = v;
                }
                return;
            }
            unsigned fam = (unsigned)rng.below(6);
            if (fam == 3 && e.idx_unsigned)
                fam = 5;
            switch (fam)
            {
            case 0:
                op.idx_family = "identity";
                for (int i = 0; i < L; ++i)
                    op.idx[(size_t)i] = i;
                break;
            case 1:
                op.idx_family = "reverse";
                for (int i = 0; i < L; ++i)
                    op.idx[(size_t)i] = L - 1 - i;
                break;
            case 2:
            {
                op.idx_family = "stride";
                int64_t s = 1 + (int64_t)rng.below((uint64_t)std::max<int64_t>(1, imax / L));
                for (int i = 0; i < L; ++i)
                    op.idx[(size_t)i] = std::min<int64_t>(imax, i * s);
                break;
            }
            case 3:
            {
                op.idx_family = "negative";
                int64_t lo = -(imax / 2) - 1;
                int64_t hi = imax / 2;
                for (int i = 0; i < L; ++i)
                    op.idx[(size_t)i] = rng.range(lo, hi);
                // make sure at least one is negative
                op.idx[rng.below((uint64_t)L)] = -1 - (int64_t)rng.below((uint64_t)(-lo));
                break;
            }
            case 4:
            {
                op.idx_family = "extremes";
                for (int i = 0; i < L; ++i)
                    op.idx[(size_t)i] = rng.coin() ? 0 : imax;
                break;
            }
            default:
                op.idx_family = "random";
                for (int i = 0; i < L; ++i)
                    op.idx[(size_t)i] = (int64_t)rng.below((uint64_t)imax + 1);
                break;
            }
            if (scatter)
            {
                // distinct indices: the property does not fix the winner of colliding lanes
                for (int i = 0; i < L; ++i)
                    for (int guard = 0; guard < 4096; ++guard)
                    {
                        bool dup = false;
                        for (int j = 0; j < i; ++j)
                            dup |= op.idx[(size_t)j] == op.idx[(size_t)i];
                        if (!dup)
                            break;
                        int64_t lo = 0, hi = imax;
                        if (op.idx_family == "negative")
                        {
                            lo = -(imax / 2) - 1;
                            hi = imax / 2;
                        }
                        op.idx[(size_t)i] = op.idx[(size_t)i] + 1 > hi ? lo : op.idx[(size_t)i] + 1;
                    }
            }
        }

        Plan generate(sim::Rng& rng)
        {
            Plan plan;
            plan.guard_ro = rng.coin();
            plan.fill_seed = rng.next();
            // swarm: a run sticks to a few (arch, type) pairs and a kind mix
            uint64_t n = 1 + rng.below(max_ops);
            unsigned n_pairs = 1 + (unsigned)rng.below(3);
            std::vector<std::pair<std::string, std::string>> pairs;
            for (unsigned i = 0; i < n_pairs; ++i)
            {
                const OpEntry* e;
                do
                    e = &table[rng.below(table.size())];
                while (!only_arch.empty() && only_arch != e->arch);
                pairs.push_back({ e->arch, e->tname });
            }
            std::vector<uint32_t> pool;
            for (uint32_t i = 0; i < table.size(); ++i)
                for (auto& pr : pairs)
                    if (pr.first == table[i].arch && pr.second == table[i].tname)
                        pool.push_back(i);
            unsigned w_place[N_PLACE] = { 2 + (unsigned)rng.below(4), 1 + (unsigned)rng.below(4), (unsigned)rng.below(4), (unsigned)rng.below(4), 0 };
            const unsigned w_hole = 1 + (unsigned)rng.below(3); // of 4: how often a gather/scatter is placed across the hole
            while (plan.ops.size() < n)
            {
                Op op;
                op.entry = pool[rng.below(pool.size())];
                const OpEntry& e = table[op.entry];
                unsigned tot = w_place[0] + w_place[1] + w_place[2] + w_place[3];
                unsigned x = (unsigned)rng.below(tot);
                op.place = x < w_place[0] ? PL_R : (x -= w_place[0]) < w_place[1] ? PL_L
                    : (x -= w_place[1]) < w_place[2]                             ? PL_MID
                                                                                 : PL_PAGE;
                op.off = (uint32_t)rng.below(512);
                op.reg_seed = rng.next();
                if (is_gs(e))
                {
                    if (rng.below(4) < w_hole)
                        op.place = PL_HOLE;
                    gen_idx(rng, e, op);
                }
                plan.ops.push_back(op);
            }
            return plan;
        }

        // ------------------------------------------------------------------ execution + oracle
        static std::string hexdump(const unsigned char* p, size_t n)
        {
            std::string s;
            char b[4];
            for (size_t i = 0; i < n && i < 64; ++i)
            {
                snprintf(b, sizeof b, "%02x", p[i]);
                s += b;
            }
            return s;
        }

        sim::Outcome execute(const Plan& plan, sim::Log& log)
        {
            sim::Outcome out;
            g_mem.setup(plan.guard_ro, plan.fill_seed);
            ++c_runs;
            plan.guard_ro ? ++fc_ro : ++fc_none;
            log.rec("setup", plan.guard_ro, plan.fill_seed);
            alignas(64) unsigned char reg_in[256], reg_out[256], aux[64 * 64 + 64], aux_in[16];
            for (const Op& op : plan.ops)
            {
                ++out.ops_executed;
                ++c_ops;
                const OpEntry& e = table[op.entry % table.size()];
                const size_t eb = elem_bytes(e);
                size_t wbytes = window_bytes(e);
                size_t woff; // offset of the accessed window in the data pages
                int64_t lo = 0, hi = 0;
                const bool gs = is_gs(e);
                const bool pure = e.kind >= K_BROADCAST;
                bool hole = false;
                if (gs)
                {
                    lo = hi = op.idx[0];
                    for (int64_t v : op.idx)
                    {
                        lo = std::min(lo, v);
                        hi = std::max(hi, v);
                    }
                    wbytes = (size_t)(hi - lo + 1) * eb;
                    if ((uint64_t)(hi - lo + 1) > (DATA - 2 * PAGE) / eb + 2 * (uint64_t)e.lanes && !(op.place == PL_HOLE && hole_valid(e, eb, op.idx)))
                    {
                        // the indexed elements do not fit the simulated address space (only a shrink candidate or a hand-edited replay can ask for
                        // this): the op cannot be placed, so it is skipped rather than executed on unmapped memory and "found" to fault
                        ++p_unplaceable_gs;
                        log.rec("skipped-unplaceable", op.entry % table.size());
                        continue;
                    }
                    if (lo < 0)
                        ++p_neg_idx;
                    if (e.idx_unsigned)
                        ++p_unsigned_idx;
                    if (op.idx_family == "huge-unsigned")
                        ++p_huge_idx;
                    if (op.place == PL_HOLE)
                    {
                        hole = hole_valid(e, eb, op.idx);
                        if (!hole)
                            ++p_hole_fallback;
                    }
                }
                if (hole)
                    woff = PAGE - (size_t)e.lanes * eb + (size_t)lo * eb; // element 0 sits e.lanes elements before the hole
                else
                    woff = place_offset(op.place, op.off, wbytes, (size_t)std::max(1, e.align_req), eb);
                unsigned char* wptr = g_mem.data + woff;
                unsigned char* ptr = gs ? wptr - lo * (int64_t)eb : wptr; // gather base: element lo sits at the window start
                // split complex forms: the imaginary array sits at the opposite kind of place; a load may also pass no imaginary array at all
                size_t woff2 = 0;
                bool second = false;
                if (is_split(e))
                {
                    static const int OPPOSITE[N_PLACE] = { PL_L, PL_R, PL_PAGE, PL_MID, PL_L };
                    second = !(e.kind == K_CPLX2_LOAD && (op.reg_seed & 3) == 0);
                    woff2 = place_offset(OPPOSITE[op.place], op.off, wbytes, (size_t)std::max(1, e.align_req), eb);
                    if (woff2 < woff + wbytes && woff < woff2 + wbytes) // cannot happen with the placements above; keep the model honest anyway
                        woff2 = woff >= DATA / 2 ? 0 : (DATA - wbytes) - ((DATA - wbytes) % (size_t)std::max(1, e.align_req));
                }
                switch (op.place)
                {
                case PL_HOLE:
                    ++fc_hole;
                    if (hole)
                        ++ff_hole;
                    break;
                case PL_R:
                    ++fc_R;
                    break;
                case PL_L:
                    ++fc_L;
                    break;
                case PL_MID:
                    ++fc_mid;
                    break;
                default:
                    ++fc_page;
                    break;
                }
                bool touches_edge = (woff == 0) || (woff + wbytes == DATA);
                bool straddle_line = (woff / 64) != ((woff + wbytes - 1) / 64);
                bool straddle_page = woff / PAGE != (woff + wbytes - 1) / PAGE;
                if (!pure)
                {
                    if (woff + wbytes == DATA)
                        ++ff_R;
                    if (woff == 0)
                        ++ff_L;
                    if (straddle_line)
                        ++ff_line;
                    if (straddle_page)
                        ++ff_page;
                    plan.guard_ro ? ++ff_ro : ++ff_none;
                    if (touches_edge)
                        ++p_touch_guard;
                    if (straddle_line)
                        ++p_straddle_line;
                    if (straddle_page)
                        ++p_straddle_page;
                    if (op.place == PL_R && woff + wbytes != DATA)
                        ++p_unplaceable;
                    if (e.align_req > (int)eb)
                        ++p_aligned_form;
                }
                uint64_t tuple = sim::hash_u64(sim::hash_u64(op.entry % table.size(), (uint64_t)op.place), sim::hash_u64(woff % 64, plan.guard_ro));
                d_all.add(tuple);
                if (!pure && (touches_edge || straddle_line || straddle_page || hole))
                    d_nontrivial.add(tuple);

                // inputs
                sim::Rng rr(op.reg_seed);
                for (size_t i = 0; i < sizeof reg_in; i += 8)
                {
                    uint64_t v = rr.next();
                    memcpy(reg_in + i, &v, 8);
                }
                uint64_t av = rr.next();
                memcpy(aux_in, &av, 8);
                memcpy(aux_in + 8, &av, 8);
                const uint64_t lane_mask = e.lanes >= 64 ? ~0ull : ((1ull << e.lanes) - 1);
                uint64_t mask_in = rr.next() & lane_mask;
                memset(reg_out, 0xee, sizeof reg_out);
                memset(aux, 0xee, sizeof aux);
                if (e.kind == K_BOOL_LOAD)
                {
                    // a bool array holds only 0/1: prepare the window (arena and model alike)
                    uint64_t bits = rr.next();
                    for (int i = 0; i < e.lanes; ++i)
                        g_mem.shadow[woff + (size_t)i] = wptr[i] = (bits >> i) & 1;
                }
                if (e.kind == K_CVT_LOAD || e.kind == K_CVT_GATHER)
                {
                    // memory holds small integers of type U (arena and model alike)
                    for (size_t k = 0; k < wbytes / eb; ++k)
                    {
                        enc(e.mem_tname, small_value(e, rr.next()), wptr + k * eb);
                        memcpy(g_mem.shadow + woff + k * eb, wptr + k * eb, eb);
                    }
                }
                if (e.kind == K_CVT_STORE || e.kind == K_CVT_SCATTER)
                    for (int i = 0; i < e.lanes; ++i)
                        enc(e.tname, small_value(e, rr.next()), reg_in + (size_t)i * e.elem);
                const char* const reg_real_t = e.elem == 4 ? "f32" : "f64"; // complex registers hold reals of this type
                if (e.kind == K_CCVT_LOAD)
                    for (int k = 0; k < 2 * e.lanes; ++k)
                    {
                        enc(e.mem_tname, (long)(rr.next() % 101) - 50, wptr + (size_t)k * e.mem_elem);
                        memcpy(g_mem.shadow + woff + (size_t)k * e.mem_elem, wptr + (size_t)k * e.mem_elem, (size_t)e.mem_elem);
                    }
                if (e.kind == K_CCVT_STORE)
                    for (int k = 0; k < 2 * e.lanes; ++k)
                        enc(reg_real_t, (long)(rr.next() % 101) - 50, reg_in + (size_t)k * e.elem);
                Ctx c;
                c.p = ptr;
                c.p2 = second ? g_mem.data + woff2 : nullptr;
                c.reg_in = reg_in;
                c.reg_out = reg_out;
                c.idx = op.idx.empty() ? nullptr : op.idx.data();
                c.aux = aux;
                c.aux_in = aux_in;
                c.mask_in = mask_in;

                bool faulted = false;
                if (hole)
                    g_mem.hole(true);
                if (sigsetjmp(g_jb, 1) == 0)
                {
                    g_armed = 1;
                    e.fn(c);
                    g_armed = 0;
                }
                else
                    faulted = true;
                if (hole)
                    g_mem.hole(false);

                const std::string where = sim::fmt("%s %s<%s,%s> placed %s+%u (window D0+%zu, %zu bytes, guards %s)", e.form, "batch", e.tname, e.arch, PLNAME[op.place], op.off, woff, wbytes,
                                                   plan.guard_ro ? "read-only" : "PROT_NONE");
                if (faulted)
                {
                    ++ff_trap;
                    uintptr_t a = g_fault.addr;
                    bool is_write = (g_fault.err >> 1) & 1;
                    long rel = (long)a - (long)(uintptr_t)wptr;
                    std::string cls;
                    if (g_fault.sig == SIGABRT)
                        cls = sim::fmt("C04/assertion-abort(%s)", e.form); // the library's own assert fired on a pointer the contract allows
                    else if ((a < (uintptr_t)g_mem.base || a >= (uintptr_t)g_mem.base + 5 * PAGE) && a != 0 && g_fault.code != SI_KERNEL)
                        cls = sim::fmt("C04/%s-outside(%s,far-away)", is_write ? "write" : "read", e.form); // an unmapped address beyond the whole simulated address space
                    else if (a < (uintptr_t)g_mem.base || a >= (uintptr_t)g_mem.base + 5 * PAGE)
                        cls = sim::fmt("C04/misaligned-trap(%s)", e.form); // #GP: si_addr is 0 for an alignment fault of an aligned instruction (and for a non-canonical address)
                    else if (hole && a >= (uintptr_t)g_mem.data + PAGE && a < (uintptr_t)g_mem.data + 2 * PAGE)
                        cls = sim::fmt("C04/%s-outside(%s,between-indexed-elements)", is_write ? "write" : "read", e.form);
                    else if (rel < 0)
                        cls = sim::fmt("C04/%s-outside(%s,before)", is_write ? "write" : "read", e.form);
                    else
                        cls = sim::fmt("C04/%s-outside(%s,after)", is_write ? "write" : "read", e.form);
                    if (g_fault.sig == SIGABRT)
                        out.violate(cls, sim::fmt("%s: abort() (assertion failure) inside the call", where.c_str()));
                    else
                        out.violate(cls, sim::fmt("%s: MMU fault at window%+ld (%s)", where.c_str(), rel, is_write ? "write" : "read"));
                    log.rec("fault", op.entry % table.size(), (uint64_t)rel, is_write);
                    // a store may have been half done: resynchronise the arena with the model
                    memcpy(g_mem.data, g_mem.shadow, DATA);
                    continue;
                }

                // expected effects on memory
                const size_t rb = (size_t)e.lanes * e.elem;
                switch (e.kind)
                {
                case K_LOAD:
                    ++cl_load;
                    if (memcmp(reg_out, g_mem.shadow + woff, rb))
                    {
                        size_t i = 0;
                        while (i < rb && reg_out[i] == g_mem.shadow[woff + i])
                            ++i;
                        out.violate(sim::fmt("C04/lane-mismatch(%s)", e.form), sim::fmt("%s: lane %zu holds %s, memory element is %s", where.c_str(), i / e.elem,
                                                                                          hexdump(reg_out + i / e.elem * e.elem, (size_t)e.elem).c_str(),
                                                                                          hexdump(g_mem.shadow + woff + i / e.elem * e.elem, (size_t)e.elem).c_str()));
                    }
                    if (memcmp(aux, reg_out, rb))
                        out.violate("C04/numbering(get)", sim::fmt("%s: get(i) disagrees with the raw register lanes", where.c_str()));
                    break;
                case K_STORE:
                    ++cl_store;
                    memcpy(g_mem.shadow + woff, reg_in, rb);
                    break;
                case K_BOOL_LOAD:
                {
                    ++cl_bool;
                    uint64_t want = 0;
                    for (int i = 0; i < e.lanes; ++i)
                        want |= (uint64_t)(g_mem.shadow[woff + (size_t)i] & 1) << i;
                    if ((c.mask_out & lane_mask) != want || (c.getmask_out & lane_mask) != want)
                        out.violate(sim::fmt("C04/lane-mismatch(%s)", e.form),
                                    sim::fmt("%s: bool bytes %s give mask 0x%llx / get(i) 0x%llx, expected 0x%llx", where.c_str(), hexdump(g_mem.shadow + woff, (size_t)e.lanes).c_str(),
                                             (unsigned long long)c.mask_out, (unsigned long long)c.getmask_out, (unsigned long long)want));
                    break;
                }
                case K_BOOL_STORE:
                    ++cl_bool;
                    for (int i = 0; i < e.lanes; ++i)
                        g_mem.shadow[woff + (size_t)i] = (mask_in >> i) & 1;
                    break;
                case K_CPLX_LOAD:
                    ++cl_cplx;
                    for (int i = 0; i < e.lanes; ++i)
                        if (memcmp(reg_out + (size_t)i * e.elem, g_mem.shadow + woff + (size_t)(2 * i) * e.elem, (size_t)e.elem)
                            || memcmp(reg_out + rb + (size_t)i * e.elem, g_mem.shadow + woff + (size_t)(2 * i + 1) * e.elem, (size_t)e.elem))
                        {
                            out.violate(sim::fmt("C04/lane-mismatch(%s)", e.form), sim::fmt("%s: complex lane %d is not (element %d re, element %d im)", where.c_str(), i, i, i));
                            break;
                        }
                    break;
                case K_SEQ_LOAD:
                case K_SEQ_GATHER:
                    ++cl_seq;
                    for (int i = 0; i < e.lanes; ++i)
                    {
                        size_t k = e.kind == K_SEQ_LOAD ? (size_t)i : (size_t)(op.idx[(size_t)i] - lo);
                        if (memcmp(aux + (size_t)i * e.elem, g_mem.shadow + woff + k * eb, (size_t)e.elem))
                        {
                            out.violate(sim::fmt("C04/lane-mismatch(%s)", e.form), sim::fmt("%s: first access: lane %d is not the element", where.c_str(), i));
                            break;
                        }
                    }
                    for (int i = 0; i < e.lanes; ++i)
                    {
                        size_t k = e.kind == K_SEQ_LOAD ? (size_t)i : (size_t)(op.idx[(size_t)i] - lo);
                        memcpy(g_mem.shadow + woff + k * eb, reg_in + (size_t)i * e.elem, (size_t)e.elem); // the caller's typed stores
                    }
                    if (memcmp(reg_out, reg_in, rb))
                        out.violate(sim::fmt("C04/stale-lane(%s)", e.form), sim::fmt("%s: the second access does not see what the caller stored into the array through T lvalues in between", where.c_str()));
                    break;
                case K_SEQ_STORE:
                case K_SEQ_SCATTER:
                    ++cl_seq;
                    for (int i = 0; i < e.lanes; ++i)
                    {
                        size_t k = e.kind == K_SEQ_STORE ? (size_t)i : (size_t)(op.idx[(size_t)i] - lo);
                        if (memcmp(aux + rb + (size_t)i * e.elem, g_mem.shadow + woff + k * eb, (size_t)e.elem))
                        {
                            out.violate(sim::fmt("C04/stale-lane(%s)", e.form), sim::fmt("%s: the caller's typed read BEFORE the store did not see the old element %d", where.c_str(), i));
                            break;
                        }
                    }
                    for (int i = 0; i < e.lanes; ++i)
                    {
                        size_t k = e.kind == K_SEQ_STORE ? (size_t)i : (size_t)(op.idx[(size_t)i] - lo);
                        memcpy(g_mem.shadow + woff + k * eb, reg_in + (size_t)i * e.elem, (size_t)e.elem);
                    }
                    if (memcmp(aux, reg_in, rb))
                        out.violate(sim::fmt("C04/stale-lane(%s)", e.form), sim::fmt("%s: the caller's typed reads after the store do not see the stored lanes", where.c_str()));
                    break;
                case K_CPLX2_LOAD:
                    ++cl_cplx;
                    if (memcmp(reg_out, g_mem.shadow + woff, rb))
                        out.violate(sim::fmt("C04/lane-mismatch(%s)", e.form), sim::fmt("%s: real lanes are not the elements of the real array", where.c_str()));
                    if (second ? memcmp(reg_out + rb, g_mem.shadow + woff2, rb) != 0 : !std::all_of(reg_out + rb, reg_out + 2 * rb, [](unsigned char b) { return b == 0; }))
                        out.violate(sim::fmt("C04/lane-mismatch(%s)", e.form),
                                    sim::fmt("%s: imaginary lanes are not %s", where.c_str(), second ? "the elements of the imaginary array" : "zero although no imaginary array was passed"));
                    break;
                case K_CPLX2_STORE:
                    ++cl_cplx;
                    memcpy(g_mem.shadow + woff, reg_in, rb);
                    memcpy(g_mem.shadow + woff2, reg_in + rb, rb);
                    break;
                case K_CPLX_STORE:
                    ++cl_cplx;
                    for (int i = 0; i < e.lanes; ++i)
                    {
                        memcpy(g_mem.shadow + woff + (size_t)(2 * i) * e.elem, reg_in + (size_t)i * e.elem, (size_t)e.elem);
                        memcpy(g_mem.shadow + woff + (size_t)(2 * i + 1) * e.elem, reg_in + rb + (size_t)i * e.elem, (size_t)e.elem);
                    }
                    break;
                case K_GATHER:
                    ++cl_gs;
                    for (int i = 0; i < e.lanes; ++i)
                        if (memcmp(reg_out + (size_t)i * e.elem, g_mem.shadow + woff + (size_t)(op.idx[(size_t)i] - lo) * eb, (size_t)e.elem))
                        {
                            out.violate(sim::fmt("C04/lane-mismatch(%s)", e.form), sim::fmt("%s: gather lane %d is not src[%lld] (%s indices)", where.c_str(), i, (long long)op.idx[(size_t)i],
                                                                                              op.idx_family.c_str()));
                            break;
                        }
                    break;
                case K_SCATTER:
                    ++cl_gs;
                    for (int i = 0; i < e.lanes; ++i)
                        memcpy(g_mem.shadow + woff + (size_t)(op.idx[(size_t)i] - lo) * eb, reg_in + (size_t)i * e.elem, (size_t)e.elem);
                    break;
                case K_CCVT_LOAD:
                    ++cl_cvt;
                    for (int i = 0; cvt_values && i < e.lanes; ++i)
                    {
                        bool e1, e2, e3, e4;
                        long re = dec(reg_real_t, reg_out + (size_t)i * e.elem, e1), im = dec(reg_real_t, reg_out + rb + (size_t)i * e.elem, e2);
                        long mre = dec(e.mem_tname, g_mem.shadow + woff + (size_t)(2 * i) * e.mem_elem, e3), mim = dec(e.mem_tname, g_mem.shadow + woff + (size_t)(2 * i + 1) * e.mem_elem, e4);
                        if (!e1 || !e2 || !e3 || !e4 || re != mre || im != mim)
                        {
                            out.violate(sim::fmt("C04/lane-mismatch(%s)", e.form), sim::fmt("%s: complex lane %d holds (%ld,%ld), memory element %d is (%ld,%ld)", where.c_str(), i, re, im, i, mre, mim));
                            break;
                        }
                    }
                    break;
                case K_CCVT_STORE:
                    ++cl_cvt;
                    if (!cvt_values)
                    {
                        memcpy(g_mem.shadow + woff, g_mem.data + woff, wbytes); // footprint only: whatever was written inside the window is accepted
                        break;
                    }
                    for (int i = 0; i < e.lanes; ++i)
                    {
                        bool ex;
                        enc(e.mem_tname, dec(reg_real_t, reg_in + (size_t)i * e.elem, ex), g_mem.shadow + woff + (size_t)(2 * i) * e.mem_elem);
                        enc(e.mem_tname, dec(reg_real_t, reg_in + rb + (size_t)i * e.elem, ex), g_mem.shadow + woff + (size_t)(2 * i + 1) * e.mem_elem);
                    }
                    break;
                case K_CVT_LOAD:
                case K_CVT_GATHER:
                    e.kind == K_CVT_LOAD ? ++cl_cvt : ++cl_cvtgs;
                    for (int i = 0; cvt_values && i < e.lanes; ++i)
                    {
                        size_t k = e.kind == K_CVT_LOAD ? (size_t)i : (size_t)(op.idx[(size_t)i] - lo);
                        bool ex1, ex2;
                        long got = dec(e.tname, reg_out + (size_t)i * e.elem, ex1);
                        long want = dec(e.mem_tname, g_mem.shadow + woff + k * eb, ex2);
                        if (!ex1 || !ex2 || got != want)
                        {
                            out.violate(sim::fmt("C04/lane-mismatch(%s)", e.form), sim::fmt("%s: lane %d holds %s (%s), memory element %zu is %ld (%s)", where.c_str(), i,
                                                                                              hexdump(reg_out + (size_t)i * e.elem, (size_t)e.elem).c_str(), e.tname, k, want, e.mem_tname));
                            break;
                        }
                    }
                    break;
                case K_CVT_STORE:
                case K_CVT_SCATTER:
                    e.kind == K_CVT_STORE ? ++cl_cvt : ++cl_cvtgs;
                    for (int i = 0; i < e.lanes; ++i)
                    {
                        size_t k = e.kind == K_CVT_STORE ? (size_t)i : (size_t)(op.idx[(size_t)i] - lo);
                        if (!cvt_values)
                        {
                            memcpy(g_mem.shadow + woff + k * eb, g_mem.data + woff + k * eb, eb); // footprint only: the indexed element may hold any value
                            continue;
                        }
                        bool ex;
                        enc(e.mem_tname, dec(e.tname, reg_in + (size_t)i * e.elem, ex), g_mem.shadow + woff + k * eb);
                    }
                    break;
                case K_BROADCAST:
                    ++cl_pure;
                    for (int i = 0; i < e.lanes; ++i)
                        if (memcmp(reg_out + (size_t)i * e.elem, reg_in, (size_t)e.elem))
                        {
                            out.violate("C04/numbering(broadcast)", sim::fmt("%s: lane %d of the broadcast is not the value", where.c_str(), i));
                            break;
                        }
                    break;
                case K_CTOR:
                    ++cl_pure;
                    if (memcmp(reg_out, reg_in, rb))
                        out.violate("C04/numbering(ctor)", sim::fmt("%s: element-list constructor did not fill lanes in argument order", where.c_str()));
                    break;
                case K_GET:
                    ++cl_pure;
                    if (memcmp(aux, reg_in, rb))
                        out.violate("C04/numbering(get)", sim::fmt("%s: get(i) disagrees with the raw register lanes", where.c_str()));
                    break;
                case K_INSERT:
                    ++cl_pure;
                    for (int i = 0; i < e.lanes; ++i)
                    {
                        unsigned char want[64];
                        memcpy(want, reg_in, rb);
                        memcpy(want + (size_t)i * e.elem, aux_in, (size_t)e.elem);
                        if (memcmp(aux + (size_t)i * rb, want, rb))
                        {
                            out.violate("C04/numbering(insert)", sim::fmt("%s: insert<%d> did not replace exactly lane %d", where.c_str(), i, i));
                            break;
                        }
                    }
                    break;
                default:
                    break;
                }
                // the whole arena is the canary: every byte outside the window must be untouched, the window must hold exactly the register
                if (memcmp(g_mem.data, g_mem.shadow, DATA))
                {
                    size_t i = 0;
                    while (g_mem.data[i] == g_mem.shadow[i])
                        ++i;
                    bool inside = (i >= woff && i < woff + wbytes) || (second && i >= woff2 && i < woff2 + wbytes);
                    bool is_store = e.kind == K_SEQ_STORE || e.kind == K_SEQ_SCATTER || e.kind == K_SEQ_LOAD || e.kind == K_SEQ_GATHER || e.kind == K_CCVT_STORE || e.kind == K_CPLX2_STORE || e.kind == K_STORE || e.kind == K_BOOL_STORE || e.kind == K_CPLX_STORE || e.kind == K_SCATTER || e.kind == K_CVT_STORE || e.kind == K_CVT_SCATTER;
                    std::string cls;
                    if (inside && is_store)
                        cls = e.kind == K_BOOL_STORE && g_mem.data[i] > 1 ? sim::fmt("C04/bool-encoding(%s)", e.form) : sim::fmt("C04/missing-write(%s)", e.form);
                    else
                        cls = sim::fmt("C04/stray-write(%s)", e.form);
                    out.violate(cls, sim::fmt("%s: byte at window%+ld is 0x%02x, the model says 0x%02x", where.c_str(), (long)i - (long)woff, g_mem.data[i], g_mem.shadow[i]));
                    memcpy(g_mem.data, g_mem.shadow, DATA);
                }
                log.rec(e.form, op.entry % table.size(), woff, sim::fnv1a(reg_out, sizeof reg_out), c.mask_out ^ (c.getmask_out << 1));
            }
            log.rec("end", sim::fnv1a(g_mem.data, DATA));
            return out;
        }

        void extra_report(Value& rep)
        {
            Value a = Value::object();
            for (auto& s : archs_run)
                a.set(s, 1);
            rep.set("x_architectures_executed", a);
            Value b = Value::object();
            for (auto& s : archs_skipped)
                b.set(s, 1);
            rep.set("x_architectures_skipped(host_cannot_execute)", b);
        }

        // ------------------------------------------------------------------ (de)serialisation
        Value to_json(const Plan& plan)
        {
            Value o = Value::object();
            o.set("setup", Value::object().set("guard", plan.guard_ro ? "ro" : "none").set("fill_seed", sim::json::hex64(plan.fill_seed)));
            Value ops = Value::array();
            for (const Op& op : plan.ops)
            {
                const OpEntry& e = table[op.entry % table.size()];
                Value j = Value::object();
                j.set("arch", e.arch).set("T", e.tname).set("op", e.form);
                j.set("place", Value::object().set("kind", PLNAME[op.place]).set("off", op.off));
                j.set("reg_seed", sim::json::hex64(op.reg_seed));
                if (!op.idx.empty())
                {
                    Value ix = Value::array();
                    for (int64_t v : op.idx)
                        ix.push((long long)v);
                    j.set("idx", ix).set("idx_family", op.idx_family);
                }
                ops.push(j);
            }
            o.set("ops", ops);
            return o;
        }
        Plan from_json(const Value& o)
        {
            Plan plan;
            plan.guard_ro = o.at("setup").get_str("guard", "none") == "ro";
            plan.fill_seed = o.at("setup").at("fill_seed").as_u64();
            for (const Value& j : o.at("ops").a)
            {
                Op op;
                std::string k = j.at("arch").as_string() + "|" + j.at("T").as_string() + "|" + j.at("op").as_string();
                auto it = index.find(k);
                if (it == index.end())
                    throw std::runtime_error("unknown or non-executable op " + k);
                op.entry = it->second;
                std::string pk = j.at("place").get_str("kind", "R");
                for (int i = 0; i < N_PLACE; ++i)
                    if (pk == PLNAME[i])
                        op.place = i;
                op.off = (uint32_t)j.at("place").get_u64("off", 0);
                op.reg_seed = j.at("reg_seed").as_u64();
                if (j.has("idx"))
                {
                    for (const Value& v : j.at("idx").a)
                        op.idx.push_back(v.as_i64());
                    op.idx_family = j.get_str("idx_family", "");
                }
                plan.ops.push_back(op);
            }
            return plan;
        }

        // ------------------------------------------------------------------ shrinking support
        size_t n_ops(const Plan& p) { return p.ops.size(); }
        Plan without_ops(const Plan& p, const std::vector<bool>& keep)
        {
            Plan q;
            q.guard_ro = p.guard_ro;
            q.fill_seed = p.fill_seed;
            for (size_t i = 0; i < p.ops.size(); ++i)
                if (keep[i])
                    q.ops.push_back(p.ops[i]);
            return q;
        }
        std::vector<Plan> simpler(const Plan& p)
        {
            std::vector<Plan> out;
            if (p.guard_ro)
            {
                Plan q = p;
                q.guard_ro = false;
                out.push_back(q);
            }
            if (p.fill_seed != 1)
            {
                Plan q = p;
                q.fill_seed = 1;
                out.push_back(q);
            }
            for (size_t i = 0; i < p.ops.size(); ++i)
            {
                const Op& op = p.ops[i];
                if (op.place != PL_R)
                {
                    Plan q = p;
                    q.ops[i].place = PL_R;
                    q.ops[i].off = 0;
                    out.push_back(q);
                    if (op.place != PL_L)
                    {
                        Plan q2 = p;
                        q2.ops[i].place = PL_L;
                        q2.ops[i].off = 0;
                        out.push_back(q2);
                    }
                }
                if (op.off)
                {
                    Plan q = p;
                    q.ops[i].off = op.off / 2;
                    out.push_back(q);
                }
                if (op.reg_seed != 1)
                {
                    Plan q = p;
                    q.ops[i].reg_seed = 1;
                    out.push_back(q);
                }
                if (!op.idx.empty())
                {
                    const OpEntry& e = table[op.entry % table.size()];
                    bool ident = true;
                    for (size_t k = 0; k < op.idx.size(); ++k)
                        ident &= op.idx[k] == (int64_t)k;
                    if (!ident)
                    {
                        Plan q = p;
                        for (size_t k = 0; k < op.idx.size(); ++k)
                            q.ops[i].idx[k] = (int64_t)k;
                        q.ops[i].idx_family = "identity";
                        out.push_back(q);
                        // pull single indices towards their lane number (keeps scatter indices distinct only if unused)
                        for (size_t k = 0; k < op.idx.size(); ++k)
                            if (op.idx[k] != (int64_t)k)
                            {
                                bool used = false;
                                for (size_t m = 0; m < op.idx.size(); ++m)
                                    used |= m != k && op.idx[m] == (int64_t)k;
                                if (used && (e.kind == K_SCATTER || e.kind == K_CVT_SCATTER))
                                    continue;
                                Plan q2 = p;
                                q2.ops[i].idx[k] = (int64_t)k;
                                q2.ops[i].idx_family = "shrunk";
                                out.push_back(q2);
                            }
                    }
                }
            }
            return out;
        }
    };
}

int main(int argc, char** argv)
{
    return sim::sim_main<C04Harness>(argc, argv);
}
