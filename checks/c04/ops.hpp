// C04: table of memory-transfer operations, one instantiation per (architecture, element type, API form).
#pragma once
#include <cstdint>
#include <vector>

namespace c04
{
    enum Kind
    {
        K_LOAD, // value batch load: window = lanes * elem bytes at p -> raw register bytes in reg_out, get(i) in aux
        K_STORE, // value batch store: raw register bytes from reg_in -> window at p
        K_BOOL_LOAD, // bool array (lanes bytes) -> batch_bool: mask() in mask_out, get(i) bits in getmask_out
        K_BOOL_STORE, // batch_bool::from_mask(mask_in) -> bool array (lanes bytes)
        K_CPLX_LOAD, // interleaved complex array (2 * lanes * elem bytes) -> real register bytes ++ imag register bytes in reg_out
        K_CPLX_STORE, // real ++ imag register bytes from reg_in -> interleaved array
        K_GATHER, // lanes elements base[idx[i]] -> reg_out
        K_SCATTER, // reg_in lanes -> base[idx[i]]
        K_CPLX2_LOAD, // split complex load: lanes reals at p, lanes imaginaries at p2 (p2 may be null: imaginary part is 0) -> real ++ imag in reg_out
        K_CPLX2_STORE, // split complex store: real lanes -> p, imaginary lanes -> p2
        // sequences inside one inlined scope: the caller touches the same array through ordinary T lvalues between two library accesses
        K_SEQ_LOAD, // load (-> aux), t[i] = reg_in lane i for every i (typed stores), load again (-> reg_out)
        K_SEQ_STORE, // store reg_in, then read every element back through a typed lvalue (-> aux)
        K_SEQ_GATHER, // gather (-> aux), t[idx[i]] = reg_in lane i (typed stores), gather again (-> reg_out)
        K_SEQ_SCATTER, // scatter reg_in, then read t[idx[i]] back through typed lvalues (-> aux)
        K_CCVT_LOAD, // converting complex load: lanes complex<U> elements at p -> batch<complex<T>>: real ++ imag register bytes in reg_out
        K_CCVT_STORE, // converting complex store: real ++ imag of batch<complex<T>> from reg_in -> lanes complex<U> elements at p
        K_CVT_LOAD, // converting load: lanes elements of type U (mem_elem bytes each) at p -> batch<T>: raw register bytes in reg_out
        K_CVT_STORE, // converting store: batch<T> from reg_in -> lanes elements of type U at p
        K_CVT_GATHER, // converting gather: batch<T>::gather(U const*, index)
        K_CVT_SCATTER, // converting scatter: batch<T>::scatter(U*, index)
        K_BROADCAST, // broadcast of the first element of reg_in -> reg_out
        K_CTOR, // element-list constructor from the elements of reg_in -> reg_out
        K_GET, // get(i) of the register made from reg_in -> aux (lanes elements)
        K_INSERT, // insert<i>(reg_in, value = first element of aux_in) for every i -> aux (lanes registers)
        N_KIND
    };

    struct Ctx
    {
        unsigned char* p = nullptr; // element pointer into the simulated address space (window start / gather base)
        unsigned char* p2 = nullptr; // second window (split complex forms)
        const unsigned char* reg_in = nullptr;
        unsigned char* reg_out = nullptr;
        const int64_t* idx = nullptr;
        unsigned char* aux = nullptr;
        const unsigned char* aux_in = nullptr;
        uint64_t mask_in = 0, mask_out = 0, getmask_out = 0;
    };

    struct OpEntry
    {
        const char* arch;
        const char* tname;
        const char* form;
        Kind kind;
        int lanes; // batch size
        int elem; // sizeof element
        int align_req; // alignment the pointer contract demands (A::alignment() for aligned forms, alignof(element) otherwise)
        bool is_float;
        void (*fn)(Ctx&);
        // converting forms only: the element type in memory (U); register lanes stay `tname`/`elem`
        const char* mem_tname = nullptr;
        int mem_elem = 0;
        bool idx_unsigned = false; // gather/scatter with an unsigned index batch
    };

#define C04_DECL(NAME) void register_##NAME(std::vector<OpEntry>&);
    C04_DECL(sse2)
    C04_DECL(sse3)
    C04_DECL(ssse3)
    C04_DECL(sse4_1)
    C04_DECL(sse4_2)
    C04_DECL(fma3_sse)
    C04_DECL(avx)
    C04_DECL(fma3_avx)
    C04_DECL(avx2)
    C04_DECL(fma3_avx2)
    C04_DECL(avxvnni)
    C04_DECL(avx512f)
    C04_DECL(avx512cd)
    C04_DECL(avx512dq)
    C04_DECL(avx512bw)
    C04_DECL(avx512ifma)
    C04_DECL(avx512vbmi)
    C04_DECL(avx512vbmi2)
    C04_DECL(avx512vnni_bw)
    C04_DECL(avx512vnni_vbmi2)
    C04_DECL(emulated128)
    C04_DECL(emulated256)
    C04_DECL(emulated512)
#undef C04_DECL
}
