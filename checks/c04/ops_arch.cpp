// compiled once per architecture: -DC04_ARCH=<xsimd arch type> -DC04_ARCHNAME="<name>" -DC04_FN=register_<x>
// Every function here is a thin call into the public xsimd API; all placement, fault capture and judging is in harness.cpp.
#include "ops.hpp"

#include <complex>
#include <algorithm>
#include <cstring>
#include <string>
#include <type_traits>
#include <utility>

#include <xsimd/xsimd.hpp>

namespace c04
{
    namespace
    {
        using A = C04_ARCH;

        template <int N>
        struct sint;
        template <>
        struct sint<1>
        {
            using type = int8_t;
        };
        template <>
        struct sint<2>
        {
            using type = int16_t;
        };
        template <>
        struct sint<4>
        {
            using type = int32_t;
        };
        template <>
        struct sint<8>
        {
            using type = int64_t;
        };

        template <class T>
        struct tn;
#define C04_TN(T, N)                           \
    template <>                                \
    struct tn<T>                               \
    {                                          \
        static const char* name() { return N; } \
    };
        C04_TN(int8_t, "i8")
        C04_TN(uint8_t, "u8")
        C04_TN(int16_t, "i16")
        C04_TN(uint16_t, "u16")
        C04_TN(int32_t, "i32")
        C04_TN(uint32_t, "u32")
        C04_TN(int64_t, "i64")
        C04_TN(uint64_t, "u64")
        C04_TN(float, "f32")
        C04_TN(double, "f64")
        // distinct builtin types of the same size as a fixed-width one (int64_t is long on this ABI; char is neither int8_t nor uint8_t);
        // the trailing letter keeps the form names unique, the leading letter+digits are what the value codec reads
        C04_TN(long long, "i64LL")
        C04_TN(unsigned long long, "u64LL")
        C04_TN(char, "i8C")
#undef C04_TN

        template <class B>
        inline B from_bytes(const unsigned char* src)
        {
            B b;
            memcpy((void*)&b, src, sizeof(B));
            return b;
        }
        template <class B>
        inline void to_bytes(unsigned char* dst, const B& b)
        {
            memcpy(dst, (const void*)&b, sizeof(B));
        }

        template <class B, class T, size_t... Is>
        inline B ctor_from(const T* v, std::index_sequence<Is...>)
        {
            return B(v[Is]...);
        }

        template <class B, class T, size_t... Is>
        inline void insert_all(const B& b, T v, unsigned char* out, std::index_sequence<Is...>)
        {
            int dummy[] = { (to_bytes(out + Is * sizeof(B), xsimd::insert(b, v, xsimd::index<Is>())), 0)... };
            (void)dummy;
        }

        template <class T>
        void add_type(std::vector<OpEntry>& out)
        {
            using B = xsimd::batch<T, A>;
            using BB = xsimd::batch_bool<T, A>;
            using I = typename sint<sizeof(T)>::type;
            using IB = xsimd::batch<I, A>;
            static_assert(sizeof(B) == B::size * sizeof(T), "register bytes are exactly the lanes");
            const int L = (int)B::size;
            const int E = (int)sizeof(T);
            const int AL = (int)A::alignment();
            const int EL = (int)alignof(T);
            const bool F = std::is_floating_point<T>::value;
            auto add = [&](const char* form, Kind k, int align_req, void (*fn)(Ctx&))
            {
                out.push_back(OpEntry { C04_ARCHNAME, tn<T>::name(), form, k, L, E, align_req, F, fn });
            };
#define GETS(b)                                   \
    for (size_t i = 0; i < B::size; ++i)          \
    {                                             \
        T g = (b).get(i);                         \
        memcpy(c.aux + i * sizeof(T), &g, sizeof(T)); \
    }
            // ---------------- value loads
            add("batch::load_aligned", K_LOAD, AL, [](Ctx& c)
                { B b = B::load_aligned((const T*)c.p); to_bytes(c.reg_out, b); GETS(b) });
            add("batch::load_unaligned", K_LOAD, EL, [](Ctx& c)
                { B b = B::load_unaligned((const T*)c.p); to_bytes(c.reg_out, b); GETS(b) });
            add("batch::load(aligned_mode)", K_LOAD, AL, [](Ctx& c)
                { B b = B::load((const T*)c.p, xsimd::aligned_mode {}); to_bytes(c.reg_out, b); GETS(b) });
            add("batch::load(unaligned_mode)", K_LOAD, EL, [](Ctx& c)
                { B b = B::load((const T*)c.p, xsimd::unaligned_mode {}); to_bytes(c.reg_out, b); GETS(b) });
            add("xsimd::load_aligned", K_LOAD, AL, [](Ctx& c)
                { B b = xsimd::load_aligned<A>((const T*)c.p); to_bytes(c.reg_out, b); GETS(b) });
            add("xsimd::load_unaligned", K_LOAD, EL, [](Ctx& c)
                { B b = xsimd::load_unaligned<A>((const T*)c.p); to_bytes(c.reg_out, b); GETS(b) });
            add("xsimd::load(aligned_mode)", K_LOAD, AL, [](Ctx& c)
                { B b = xsimd::load<A>((const T*)c.p, xsimd::aligned_mode {}); to_bytes(c.reg_out, b); GETS(b) });
            add("xsimd::load(unaligned_mode)", K_LOAD, EL, [](Ctx& c)
                { B b = xsimd::load<A>((const T*)c.p, xsimd::unaligned_mode {}); to_bytes(c.reg_out, b); GETS(b) });
            add("xsimd::load_as(aligned_mode)", K_LOAD, AL, [](Ctx& c)
                { B b = xsimd::load_as<T, A>((const T*)c.p, xsimd::aligned_mode {}); to_bytes(c.reg_out, b); GETS(b) });
            add("xsimd::load_as(unaligned_mode)", K_LOAD, EL, [](Ctx& c)
                { B b = xsimd::load_as<T, A>((const T*)c.p, xsimd::unaligned_mode {}); to_bytes(c.reg_out, b); GETS(b) });
            // ---------------- value stores
            add("batch::store_aligned", K_STORE, AL, [](Ctx& c)
                { from_bytes<B>(c.reg_in).store_aligned((T*)c.p); });
            add("batch::store_unaligned", K_STORE, EL, [](Ctx& c)
                { from_bytes<B>(c.reg_in).store_unaligned((T*)c.p); });
            add("batch::store(aligned_mode)", K_STORE, AL, [](Ctx& c)
                { from_bytes<B>(c.reg_in).store((T*)c.p, xsimd::aligned_mode {}); });
            add("batch::store(unaligned_mode)", K_STORE, EL, [](Ctx& c)
                { from_bytes<B>(c.reg_in).store((T*)c.p, xsimd::unaligned_mode {}); });
            add("xsimd::store_aligned", K_STORE, AL, [](Ctx& c)
                { xsimd::store_aligned((T*)c.p, from_bytes<B>(c.reg_in)); });
            add("xsimd::store_unaligned", K_STORE, EL, [](Ctx& c)
                { xsimd::store_unaligned((T*)c.p, from_bytes<B>(c.reg_in)); });
            add("xsimd::store(aligned_mode)", K_STORE, AL, [](Ctx& c)
                { xsimd::store((T*)c.p, from_bytes<B>(c.reg_in), xsimd::aligned_mode {}); });
            add("xsimd::store(unaligned_mode)", K_STORE, EL, [](Ctx& c)
                { xsimd::store((T*)c.p, from_bytes<B>(c.reg_in), xsimd::unaligned_mode {}); });
            add("xsimd::store_as(aligned_mode)", K_STORE, AL, [](Ctx& c)
                { xsimd::store_as((T*)c.p, from_bytes<B>(c.reg_in), xsimd::aligned_mode {}); });
            add("xsimd::store_as(unaligned_mode)", K_STORE, EL, [](Ctx& c)
                { xsimd::store_as((T*)c.p, from_bytes<B>(c.reg_in), xsimd::unaligned_mode {}); });
            // ---------------- bool arrays
        // two independent observers of a batch_bool: mask() and get(i). The emulated architecture's mask() shifts a 32-bit one, so it cannot
        // describe more than 32 lanes (emulated<512> with 8-bit elements) - a matter for C03, not for this check: there get(i) observes alone.
#define BOOL_OBSERVE(m)                                    \
    c.getmask_out = 0;                                     \
    for (size_t i = 0; i < BB::size; ++i)                  \
        c.getmask_out |= (uint64_t)((m).get(i) ? 1 : 0) << i; \
    c.mask_out = (std::is_base_of<xsimd::generic, A>::value && !A::requires_alignment() && BB::size > 32) ? c.getmask_out : (m).mask();
            add("batch_bool::load_aligned", K_BOOL_LOAD, AL, [](Ctx& c)
                { BB m = BB::load_aligned((const bool*)c.p); BOOL_OBSERVE(m) });
            add("batch_bool::load_unaligned", K_BOOL_LOAD, 1, [](Ctx& c)
                { BB m = BB::load_unaligned((const bool*)c.p); BOOL_OBSERVE(m) });
            add("xsimd::load_as<bool>(aligned_mode)", K_BOOL_LOAD, AL, [](Ctx& c)
                { BB m = xsimd::load_as<T, A>((const bool*)c.p, xsimd::aligned_mode {}); BOOL_OBSERVE(m) });
            add("xsimd::load_as<bool>(unaligned_mode)", K_BOOL_LOAD, 1, [](Ctx& c)
                { BB m = xsimd::load_as<T, A>((const bool*)c.p, xsimd::unaligned_mode {}); BOOL_OBSERVE(m) });
            add("batch_bool::store_aligned", K_BOOL_STORE, AL, [](Ctx& c)
                { BB::from_mask(c.mask_in).store_aligned((bool*)c.p); });
            add("batch_bool::store_unaligned", K_BOOL_STORE, 1, [](Ctx& c)
                { BB::from_mask(c.mask_in).store_unaligned((bool*)c.p); });
            add("xsimd::store_as<bool>(aligned_mode)", K_BOOL_STORE, AL, [](Ctx& c)
                { xsimd::store_as((bool*)c.p, BB::from_mask(c.mask_in), xsimd::aligned_mode {}); });
            add("xsimd::store_as<bool>(unaligned_mode)", K_BOOL_STORE, 1, [](Ctx& c)
                { xsimd::store_as((bool*)c.p, BB::from_mask(c.mask_in), xsimd::unaligned_mode {}); });
#undef BOOL_OBSERVE
            // ---------------- gather / scatter with same-width signed indices
            add("batch::gather", K_GATHER, EL, [](Ctx& c)
                {
                    I ix[B::size];
                    for (size_t i = 0; i < B::size; ++i)
                        ix[i] = (I)c.idx[i];
                    IB index = from_bytes<IB>((const unsigned char*)ix);
                    B b = B::gather((const T*)c.p, index);
                    to_bytes(c.reg_out, b); });
            add("batch::scatter", K_SCATTER, EL, [](Ctx& c)
                {
                    I ix[B::size];
                    for (size_t i = 0; i < B::size; ++i)
                        ix[i] = (I)c.idx[i];
                    IB index = from_bytes<IB>((const unsigned char*)ix);
                    from_bytes<B>(c.reg_in).scatter((T*)c.p, index); });
            add("batch::gather(unsigned index)", K_GATHER, EL, [](Ctx& c)
                {
                    using UI = typename std::make_unsigned<I>::type;
                    UI ix[B::size];
                    for (size_t i = 0; i < B::size; ++i)
                        ix[i] = (UI)c.idx[i];
                    xsimd::batch<UI, A> index = from_bytes<xsimd::batch<UI, A>>((const unsigned char*)ix);
                    B b = B::gather((const T*)c.p, index);
                    to_bytes(c.reg_out, b); });
            out.back().idx_unsigned = true;
            add("batch::scatter(unsigned index)", K_SCATTER, EL, [](Ctx& c)
                {
                    using UI = typename std::make_unsigned<I>::type;
                    UI ix[B::size];
                    for (size_t i = 0; i < B::size; ++i)
                        ix[i] = (UI)c.idx[i];
                    xsimd::batch<UI, A> index = from_bytes<xsimd::batch<UI, A>>((const unsigned char*)ix);
                    from_bytes<B>(c.reg_in).scatter((T*)c.p, index); });
            out.back().idx_unsigned = true;
            // ---------------- the library's accesses interleaved with the caller's own typed accesses to the same array, in one scope
            add("seq: load_unaligned, t[i] = v, load_unaligned", K_SEQ_LOAD, EL, [](Ctx& c)
                {
                    T* t = (T*)c.p;
                    T v[B::size];
                    memcpy(v, c.reg_in, sizeof v);
                    B first = B::load_unaligned(t);
                    for (size_t i = 0; i < B::size; ++i)
                        t[i] = v[i];
                    B second = B::load_unaligned(t);
                    to_bytes(c.aux, first);
                    to_bytes(c.reg_out, second); });
            add("seq: store_unaligned, read t[i]", K_SEQ_STORE, EL, [](Ctx& c)
                {
                    T* t = (T*)c.p;
                    T r[B::size];
                    for (size_t i = 0; i < B::size; ++i)
                        r[i] = t[i]; // the caller has looked at the old contents
                    from_bytes<B>(c.reg_in).store_unaligned(t);
                    T w[B::size];
                    for (size_t i = 0; i < B::size; ++i)
                        w[i] = t[i];
                    memcpy(c.aux, w, sizeof w);
                    memcpy(c.aux + sizeof w, r, sizeof r); });
            add("seq: gather, t[idx] = v, gather", K_SEQ_GATHER, EL, [](Ctx& c)
                {
                    T* t = (T*)c.p;
                    T v[B::size];
                    memcpy(v, c.reg_in, sizeof v);
                    I ix[B::size];
                    for (size_t i = 0; i < B::size; ++i)
                        ix[i] = (I)c.idx[i];
                    IB index = from_bytes<IB>((const unsigned char*)ix);
                    B first = B::gather(t, index);
                    for (size_t i = 0; i < B::size; ++i)
                        t[ix[i]] = v[i];
                    B second = B::gather(t, index);
                    to_bytes(c.aux, first);
                    to_bytes(c.reg_out, second); });
            add("seq: scatter, read t[idx]", K_SEQ_SCATTER, EL, [](Ctx& c)
                {
                    T* t = (T*)c.p;
                    I ix[B::size];
                    for (size_t i = 0; i < B::size; ++i)
                        ix[i] = (I)c.idx[i];
                    IB index = from_bytes<IB>((const unsigned char*)ix);
                    T r[B::size];
                    for (size_t i = 0; i < B::size; ++i)
                        r[i] = t[ix[i]];
                    from_bytes<B>(c.reg_in).scatter(t, index);
                    T w[B::size];
                    for (size_t i = 0; i < B::size; ++i)
                        w[i] = t[ix[i]];
                    memcpy(c.aux, w, sizeof w);
                    memcpy(c.aux + sizeof w, r, sizeof r); });
            // ---------------- lane numbering by-products (no memory access of their own)
            add("batch::broadcast", K_BROADCAST, EL, [](Ctx& c)
                {
                    T v;
                    memcpy(&v, c.reg_in, sizeof(T));
                    to_bytes(c.reg_out, B::broadcast(v)); });
            add("batch(T)", K_BROADCAST, EL, [](Ctx& c)
                {
                    T v;
                    memcpy(&v, c.reg_in, sizeof(T));
                    to_bytes(c.reg_out, B(v)); });
            add("batch(v0,v1,...)", K_CTOR, EL, [](Ctx& c)
                {
                    T v[B::size];
                    memcpy(v, c.reg_in, sizeof v);
                    to_bytes(c.reg_out, ctor_from<B, T>(v, std::make_index_sequence<B::size>())); });
            add("batch::get(i)", K_GET, EL, [](Ctx& c)
                {
                    B b = from_bytes<B>(c.reg_in);
                    GETS(b) });
            add("xsimd::insert<i>", K_INSERT, EL, [](Ctx& c)
                {
                    B b = from_bytes<B>(c.reg_in);
                    T v;
                    memcpy(&v, c.aux_in, sizeof(T));
                    insert_all<B, T>(b, v, c.aux, std::make_index_sequence<B::size>()); });
#undef GETS
        }

        // converting loads/stores and gathers/scatters: memory holds U, the register holds T. The harness fills memory / the register
        // with small integers that both types represent exactly, so the only things judged are the footprint and lane i <-> element i.
        template <class T, class U>
        void add_cvt(std::vector<OpEntry>& out)
        {
            using B = xsimd::batch<T, A>;
            using I = typename sint<sizeof(T)>::type;
            using IB = xsimd::batch<I, A>;
            const int L = (int)B::size;
            const int E = (int)sizeof(T);
            const int AL = (int)std::max<size_t>(A::alignment(), alignof(U));
            const int EL = (int)alignof(U);
            const bool F = std::is_floating_point<T>::value;
            static std::vector<std::string> names; // keeps the form strings alive
            auto add = [&](const std::string& form, Kind k, int align_req, void (*fn)(Ctx&))
            {
                names.reserve(16);
                names.push_back(form + "[mem=" + tn<U>::name() + "]");
                OpEntry e { C04_ARCHNAME, tn<T>::name(), nullptr, k, L, E, align_req, F, fn };
                e.mem_tname = tn<U>::name();
                e.mem_elem = (int)sizeof(U);
                out.push_back(e);
            };
            add("batch::load_aligned", K_CVT_LOAD, AL, [](Ctx& c)
                { B b = B::load_aligned((const U*)c.p); to_bytes(c.reg_out, b); });
            add("batch::load_unaligned", K_CVT_LOAD, EL, [](Ctx& c)
                { B b = B::load_unaligned((const U*)c.p); to_bytes(c.reg_out, b); });
            add("batch::load(aligned_mode)", K_CVT_LOAD, AL, [](Ctx& c)
                { B b = B::load((const U*)c.p, xsimd::aligned_mode {}); to_bytes(c.reg_out, b); });
            add("xsimd::load_as(aligned_mode)", K_CVT_LOAD, AL, [](Ctx& c)
                { B b = xsimd::load_as<T, A>((const U*)c.p, xsimd::aligned_mode {}); to_bytes(c.reg_out, b); });
            add("xsimd::load_as(unaligned_mode)", K_CVT_LOAD, EL, [](Ctx& c)
                { B b = xsimd::load_as<T, A>((const U*)c.p, xsimd::unaligned_mode {}); to_bytes(c.reg_out, b); });
            add("batch::store_aligned", K_CVT_STORE, AL, [](Ctx& c)
                { from_bytes<B>(c.reg_in).store_aligned((U*)c.p); });
            add("batch::store_unaligned", K_CVT_STORE, EL, [](Ctx& c)
                { from_bytes<B>(c.reg_in).store_unaligned((U*)c.p); });
            add("batch::store(unaligned_mode)", K_CVT_STORE, EL, [](Ctx& c)
                { from_bytes<B>(c.reg_in).store((U*)c.p, xsimd::unaligned_mode {}); });
            add("xsimd::store_as(aligned_mode)", K_CVT_STORE, AL, [](Ctx& c)
                { xsimd::store_as((U*)c.p, from_bytes<B>(c.reg_in), xsimd::aligned_mode {}); });
            add("xsimd::store_as(unaligned_mode)", K_CVT_STORE, EL, [](Ctx& c)
                { xsimd::store_as((U*)c.p, from_bytes<B>(c.reg_in), xsimd::unaligned_mode {}); });
            add("batch::gather", K_CVT_GATHER, EL, [](Ctx& c)
                {
                    I ix[B::size];
                    for (size_t i = 0; i < B::size; ++i)
                        ix[i] = (I)c.idx[i];
                    IB index = from_bytes<IB>((const unsigned char*)ix);
                    B b = B::gather((const U*)c.p, index);
                    to_bytes(c.reg_out, b); });
            add("batch::scatter", K_CVT_SCATTER, EL, [](Ctx& c)
                {
                    I ix[B::size];
                    for (size_t i = 0; i < B::size; ++i)
                        ix[i] = (I)c.idx[i];
                    IB index = from_bytes<IB>((const unsigned char*)ix);
                    from_bytes<B>(c.reg_in).scatter((U*)c.p, index); });
            // fix up the form pointers (the vector was reserved, so the strings did not move)
            size_t n = 12;
            for (size_t k = 0; k < n; ++k)
                out[out.size() - n + k].form = names[names.size() - n + k].c_str();
        }

        template <class T, class U>
        typename std::enable_if<std::is_same<T, U>::value>::type add_cvt_if(std::vector<OpEntry>&)
        {
        }
        template <class T, class U>
        typename std::enable_if<!std::is_same<T, U>::value>::type add_cvt_if(std::vector<OpEntry>& out)
        {
            add_cvt<T, U>(out);
        }
        template <class T>
        void add_cvt_row(std::vector<OpEntry>& out)
        {
            add_cvt_if<T, int8_t>(out);
            add_cvt_if<T, uint8_t>(out);
            add_cvt_if<T, int16_t>(out);
            add_cvt_if<T, uint16_t>(out);
            add_cvt_if<T, int32_t>(out);
            add_cvt_if<T, uint32_t>(out);
            add_cvt_if<T, int64_t>(out);
            add_cvt_if<T, uint64_t>(out);
            add_cvt_if<T, float>(out);
            add_cvt_if<T, double>(out);
        }

        template <class T>
        void add_complex(std::vector<OpEntry>& out)
        {
            using C = std::complex<T>;
            using B = xsimd::batch<T, A>;
            using CB = xsimd::batch<C, A>;
            const int L = (int)B::size;
            const int E = (int)sizeof(T);
            const int AL = (int)A::alignment();
            const int EL = (int)alignof(C);
            auto add = [&](const char* form, Kind k, int align_req, void (*fn)(Ctx&))
            {
                out.push_back(OpEntry { C04_ARCHNAME, sizeof(T) == 4 ? "c32" : "c64", form, k, L, E, align_req, true, fn });
            };
#define CPUT(z)                            \
    to_bytes(c.reg_out, (z).real());       \
    to_bytes(c.reg_out + sizeof(B), (z).imag());
#define CGET CB(from_bytes<B>(c.reg_in), from_bytes<B>(c.reg_in + sizeof(B)))
            add("batch<complex>::load_aligned", K_CPLX_LOAD, AL, [](Ctx& c)
                { CB z = CB::load_aligned((const C*)c.p); CPUT(z) });
            add("batch<complex>::load_unaligned", K_CPLX_LOAD, EL, [](Ctx& c)
                { CB z = CB::load_unaligned((const C*)c.p); CPUT(z) });
            add("batch<complex>::load(aligned_mode)", K_CPLX_LOAD, AL, [](Ctx& c)
                { CB z = CB::load((const C*)c.p, xsimd::aligned_mode {}); CPUT(z) });
            add("batch<complex>::load(unaligned_mode)", K_CPLX_LOAD, EL, [](Ctx& c)
                { CB z = CB::load((const C*)c.p, xsimd::unaligned_mode {}); CPUT(z) });
            add("xsimd::load_as<complex>(aligned_mode)", K_CPLX_LOAD, AL, [](Ctx& c)
                { CB z = xsimd::load_as<C, A>((const C*)c.p, xsimd::aligned_mode {}); CPUT(z) });
            add("xsimd::load_as<complex>(unaligned_mode)", K_CPLX_LOAD, EL, [](Ctx& c)
                { CB z = xsimd::load_as<C, A>((const C*)c.p, xsimd::unaligned_mode {}); CPUT(z) });
            add("batch<complex>::store_aligned", K_CPLX_STORE, AL, [](Ctx& c)
                { CGET.store_aligned((C*)c.p); });
            add("batch<complex>::store_unaligned", K_CPLX_STORE, EL, [](Ctx& c)
                { CGET.store_unaligned((C*)c.p); });
            add("batch<complex>::store(aligned_mode)", K_CPLX_STORE, AL, [](Ctx& c)
                { CGET.store((C*)c.p, xsimd::aligned_mode {}); });
            add("batch<complex>::store(unaligned_mode)", K_CPLX_STORE, EL, [](Ctx& c)
                { CGET.store((C*)c.p, xsimd::unaligned_mode {}); });
            add("xsimd::store_as<complex>(aligned_mode)", K_CPLX_STORE, AL, [](Ctx& c)
                { xsimd::store_as((C*)c.p, CGET, xsimd::aligned_mode {}); });
            add("xsimd::store_as<complex>(unaligned_mode)", K_CPLX_STORE, EL, [](Ctx& c)
                { xsimd::store_as((C*)c.p, CGET, xsimd::unaligned_mode {}); });
            // split (two-pointer) forms: separate real and imaginary arrays
            const int RL = (int)alignof(T);
            add("batch<complex>::load_aligned(re*,im*)", K_CPLX2_LOAD, AL, [](Ctx& c)
                { CB z = CB::load_aligned((const T*)c.p, (const T*)c.p2); CPUT(z) });
            add("batch<complex>::load_unaligned(re*,im*)", K_CPLX2_LOAD, RL, [](Ctx& c)
                { CB z = CB::load_unaligned((const T*)c.p, (const T*)c.p2); CPUT(z) });
            add("batch<complex>::store_aligned(re*,im*)", K_CPLX2_STORE, AL, [](Ctx& c)
                { CGET.store_aligned((T*)c.p, (T*)c.p2); });
            add("batch<complex>::store_unaligned(re*,im*)", K_CPLX2_STORE, RL, [](Ctx& c)
                { CGET.store_unaligned((T*)c.p, (T*)c.p2); });
#undef CPUT
#undef CGET
        }
    }

    namespace
    {
        // complex<T> registers <-> complex<U> memory (the other precision), through the free load_as / store_as tag forms
        template <class T, class U>
        void add_complex_cvt(std::vector<OpEntry>& out)
        {
            using CT = std::complex<T>;
            using CU = std::complex<U>;
            using B = xsimd::batch<T, A>;
            using CB = xsimd::batch<CT, A>;
            const int L = (int)B::size;
            const int E = (int)sizeof(T);
            const int AL = (int)A::alignment();
            const int EL = (int)alignof(CU);
            auto add = [&](const char* form, Kind k, int align_req, void (*fn)(Ctx&))
            {
                OpEntry e { C04_ARCHNAME, sizeof(T) == 4 ? "c32" : "c64", form, k, L, E, align_req, true, fn };
                e.mem_tname = sizeof(U) == 4 ? "f32" : "f64";
                e.mem_elem = (int)sizeof(U);
                out.push_back(e);
            };
            add("xsimd::load_as<complex>(aligned_mode)[mem=other precision]", K_CCVT_LOAD, AL, [](Ctx& c)
                { CB z = xsimd::load_as<CT, A>((const CU*)c.p, xsimd::aligned_mode {}); to_bytes(c.reg_out, z.real()); to_bytes(c.reg_out + sizeof(B), z.imag()); });
            add("xsimd::load_as<complex>(unaligned_mode)[mem=other precision]", K_CCVT_LOAD, EL, [](Ctx& c)
                { CB z = xsimd::load_as<CT, A>((const CU*)c.p, xsimd::unaligned_mode {}); to_bytes(c.reg_out, z.real()); to_bytes(c.reg_out + sizeof(B), z.imag()); });
            add("xsimd::store_as<complex>(aligned_mode)[mem=other precision]", K_CCVT_STORE, AL, [](Ctx& c)
                { xsimd::store_as((CU*)c.p, CB(from_bytes<B>(c.reg_in), from_bytes<B>(c.reg_in + sizeof(B))), xsimd::aligned_mode {}); });
            add("xsimd::store_as<complex>(unaligned_mode)[mem=other precision]", K_CCVT_STORE, EL, [](Ctx& c)
                { xsimd::store_as((CU*)c.p, CB(from_bytes<B>(c.reg_in), from_bytes<B>(c.reg_in + sizeof(B))), xsimd::unaligned_mode {}); });
        }
    }

    void C04_FN(std::vector<OpEntry>& out)
    {
        add_type<int8_t>(out);
        add_type<uint8_t>(out);
        add_type<int16_t>(out);
        add_type<uint16_t>(out);
        add_type<int32_t>(out);
        add_type<uint32_t>(out);
        add_type<int64_t>(out);
        add_type<uint64_t>(out);
        add_type<float>(out);
        add_type<double>(out);
        add_complex<float>(out);
        add_complex<double>(out);
        add_complex_cvt<float, double>(out);
        add_complex_cvt<double, float>(out);
        // converting forms (register T <- memory U), every ordered pair of the 10 element types: same-size pairs take the fast_cast /
        // bitwise paths where the ISA has one, the others the scratch-buffer path (load_as does not accept long long / char, so those are not instantiated)
        add_cvt_row<int8_t>(out);
        add_cvt_row<uint8_t>(out);
        add_cvt_row<int16_t>(out);
        add_cvt_row<uint16_t>(out);
        add_cvt_row<int32_t>(out);
        add_cvt_row<uint32_t>(out);
        add_cvt_row<int64_t>(out);
        add_cvt_row<uint64_t>(out);
        add_cvt_row<float>(out);
        add_cvt_row<double>(out);
    }
}
