// C14: table of the public math functions, one instantiation per (architecture, element type).
#pragma once
#include <cstdint>
#include <vector>

namespace c14
{
    struct FnEntry
    {
        const char* name;
        const char* tname; // "f32" | "f64"
        const char* arch;
        int arity; // 1 | 2 ; second operand of ldexp/ipow is an integer lane vector of the same width
        int lanes;
        int elem_size;
        bool second_is_int;
        void (*call)(const void* a, const void* b, void* out); // out: lanes * elem_size bytes (2x for pair/complex results)
    };
    void register_sse2(std::vector<FnEntry>&);
    void register_avx2(std::vector<FnEntry>&);
    void register_avx512f(std::vector<FnEntry>&);
    void register_emulated128(std::vector<FnEntry>&);
    void register_sse4_2(std::vector<FnEntry>&);
    void register_avx(std::vector<FnEntry>&);
    void register_fma3_avx2(std::vector<FnEntry>&);
    void register_avx512bw(std::vector<FnEntry>&);
    void register_avx512vnni_vbmi2(std::vector<FnEntry>&);
}
