// C14: the simulated step clock. Time advances only when the code under test takes a step of one of its
// data-dependent loops (XSIMD_VERIF_LOOP_TICK hook). A per-call tick budget turns "does the call come back,
// and in bounded time" into an exact, instantaneous and replayable check.
#pragma once
#include <csetjmp>
#include <cstdint>

namespace c14
{
    struct Site
    {
        const char* file; // basename
        int line;
        uint64_t total; // ticks over the whole process
        uint64_t in_call; // ticks in the current call
        uint64_t max_in_call;
    };

    struct Clock
    {
        uint64_t ticks = 0; // ticks of the current call
        uint64_t budget = 4096;
        uint64_t total = 0; // simulated time of the whole process
        bool armed = false;
        // second clock: every basic block of the code under test executed in the current call (the kernels' translation units are compiled
        // with -fsanitize-coverage=trace-pc, so this clock also runs in loops that carry no XSIMD_VERIF_LOOP_TICK)
        uint64_t blocks = 0;
        uint64_t block_budget = 1u << 18;
        uint64_t blocks_total = 0;
        bool block_exceeded = false;
        const void* block_pc = nullptr;
        // third limit: stack depth of the call (runaway recursion ends in a stack overflow long before it ends the block budget)
        const char* sp0 = nullptr;
        uint64_t stack_budget = 1u << 20;
        bool stack_exceeded = false;
        jmp_buf jb;
        Site sites[32];
        int n_sites = 0;
        int exceeded_site = -1;
        void begin_call();
        Site* site(const char* file, int line);
    };
    Clock& tick_clock();
    const char* base_name(const char* path);
}
extern "C" void xsimd_verif_loop_tick(const char* file, int line);
extern "C" void __sanitizer_cov_trace_pc();
namespace c14
{
}
