// C14: arguments that are unusually close to a multiple of pi/2 - the classical hard cases of trigonometric argument reduction
// (W. Kahan's "nearpi"): for x = q * 2^s the fractional part of x * 2/pi is frac(q * alpha_s) with alpha_s = frac(2^s * 2/pi), and the
// q < 2^mantissa that make it smallest are the continued-fraction (semi-)convergents of alpha_s. They are the arguments for which a
// Payne-Hanek style reducer needs extra terms ("recomputation"), i.e. where its data-dependent loops actually loop.
// The constant below is independent of the library's own ipio2 table (computed with mpmath: floor(2/pi * 2^1280)).
#pragma once
#include <cmath>
#include <cstdint>
#include <cstring>
#include <vector>

namespace c14
{
    static const char* const TWO_OVER_PI_HEX = "a2f9836e4e441529fc2757d1f534ddc0db6295993c439041fe5163abdebbc561b7246e3a424dd2e006492eea09d1921cfe1deb1cb129a73ee88235f52ebb4484"
                                               "e99c7026b45f7e413991d639835339f49c845f8bbdf9283b1ff897ffde05980fef2f118b5a0a6d1f6d367ecf27cb09b74f463f669e5fea2d7527bac7ebe5f17b"
                                               "3d0739f78a5292ea6bfb5fb11f8d5d0856033046fc7b6babf0cfbc209af4361d";

    // fractional bit k (k = 0 is the first bit after the binary point) of 2/pi
    inline int two_over_pi_bit(long k)
    {
        if (k < 0 || k >= 1280)
            return 0;
        char c = TWO_OVER_PI_HEX[k / 4];
        int v = c <= '9' ? c - '0' : c - 'a' + 10;
        return (v >> (3 - k % 4)) & 1;
    }
    // top 126 bits of frac(2^s * 2/pi), as an integer A with alpha = A / 2^126
    inline unsigned __int128 alpha_bits(int s)
    {
        unsigned __int128 a = 0;
        for (int k = 0; k < 126; ++k)
            a = (a << 1) | (unsigned)two_over_pi_bit((long)s + k);
        return a;
    }

    // bit patterns of the floats/doubles x = q * 2^s (both signs are added by the caller) whose q is a convergent or semi-convergent denominator
    // of alpha_s, for every s at which x is representable (and the same q one binade lower: multiples of pi/4); plus fl(n * pi/4) for small n
    inline void nearpi_table(bool f32, std::vector<uint64_t>& out)
    {
        const int mant = f32 ? 24 : 53;
        const int emax = f32 ? 127 : 1023;
        auto emit = [&](unsigned __int128 q, int s)
        {
            if (q == 0 || q >> mant)
                return;
            double v = std::ldexp((double)(uint64_t)q, s); // exact: q < 2^53
            if (!(v > 0) || std::isinf(v))
                return;
            if (f32)
            {
                float f = (float)v;
                if (std::isinf(f) || (double)f != v)
                    return;
                uint32_t u;
                memcpy(&u, &f, 4);
                out.push_back(u);
            }
            else
            {
                uint64_t u;
                memcpy(&u, &v, 8);
                out.push_back(u);
            }
        };
        for (int s = -mant; s + 1 <= emax; ++s)
        {
            unsigned __int128 r0 = (unsigned __int128)1 << 126, r1 = alpha_bits(s);
            unsigned __int128 q0 = 0, q1 = 1; // denominators q_{i-1}, q_i
            for (int it = 0; it < 80 && r1 != 0; ++it)
            {
                unsigned __int128 a = r0 / r1, r2 = r0 % r1;
                unsigned __int128 qn = a * q1 + q0;
                // semi-convergents q0 + t*q1, t = 1 .. a-1 (the ends and the middle are enough), then the convergent itself
                // x = q * 2^s is close to a multiple of pi/2; x = q * 2^(s-1) is then just as close to a multiple of pi/4
                // (the odd ones are the quadrant boundaries of the reduction)
                if (a > 1)
                {
                    emit(q0 + q1, s);
                    emit(q0 + (a - 1) * q1, s);
                    emit(q0 + (a / 2) * q1, s);
                    emit(q0 + q1, s - 1);
                    emit(q0 + (a - 1) * q1, s - 1);
                }
                emit(qn, s);
                emit(qn, s - 1);
                if (qn >> mant)
                    break;
                q0 = q1;
                q1 = qn;
                r0 = r1;
                r1 = r2;
            }
        }
        for (int n = 1; n < 8192; ++n)
        {
            double d = n * 0.78539816339744831; // fl(n * pi/4): the medium (Cody-Waite) range
            if (f32)
            {
                float f = (float)d;
                uint32_t u;
                memcpy(&u, &f, 4);
                out.push_back(u);
            }
            else
            {
                uint64_t u;
                memcpy(&u, &d, 8);
                out.push_back(u);
            }
        }
    }
}
