#include "tickclock.hpp"

#include <cstring>

namespace c14
{
    Clock& tick_clock()
    {
        static Clock c;
        return c;
    }
    const char* base_name(const char* path)
    {
        const char* s = strrchr(path, '/');
        return s ? s + 1 : path;
    }
    void Clock::begin_call()
    {
        ticks = 0;
        blocks = 0;
        block_exceeded = false;
        stack_exceeded = false;
        block_pc = nullptr;
        exceeded_site = -1;
        for (int i = 0; i < n_sites; ++i)
            sites[i].in_call = 0;
    }
    Site* Clock::site(const char* file, int line)
    {
        for (int i = 0; i < n_sites; ++i)
            if (sites[i].line == line && (sites[i].file == file || !strcmp(sites[i].file, base_name(file))))
                return &sites[i];
        if (n_sites == 32)
            return &sites[31];
        sites[n_sites] = Site { base_name(file), line, 0, 0, 0 };
        return &sites[n_sites++];
    }
}

extern "C" void xsimd_verif_loop_tick(const char* file, int line)
{
    c14::Clock& c = c14::tick_clock();
    ++c.ticks;
    ++c.total;
    c14::Site* s = c.site(file, line);
    ++s->total;
    if (++s->in_call > s->max_in_call)
        s->max_in_call = s->in_call;
    if (c.armed && c.ticks > c.budget)
    {
        c.exceeded_site = (int)(s - c.sites);
        c.armed = false;
        longjmp(c.jb, 1);
    }
}

// called by the compiler-inserted instrumentation at the head of every basic block of the kernels' translation units
extern "C" void __sanitizer_cov_trace_pc()
{
    c14::Clock& c = c14::tick_clock();
    ++c.blocks;
    ++c.blocks_total;
    char probe;
    if (c.armed && c.sp0 && (uint64_t)(c.sp0 - &probe) > c.stack_budget && c.sp0 > &probe)
    {
        c.stack_exceeded = true;
        c.block_exceeded = true;
        c.block_pc = __builtin_return_address(0);
        c.armed = false;
        longjmp(c.jb, 1);
    }
    if (c.armed && c.blocks > c.block_budget)
    {
        c.block_exceeded = true;
        c.block_pc = __builtin_return_address(0);
        c.armed = false;
        longjmp(c.jb, 1);
    }
}
