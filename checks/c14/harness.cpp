// C14 harness: every math call returns within a bounded number of loop steps (DESIGN.md 6.4).
// Real code: all float/double elementary functions with their real kernels on several architectures.
// Stub: time. The simulated step clock is ticked by the XSIMD_VERIF_LOOP_TICK hook in the 11 data-dependent
// loops; a CPU-time watchdog is the backstop for code without hooks.
#include "funcs.hpp"
#include "nearpi.hpp"
#include "tickclock.hpp"

#include "../../sim/core.hpp"

#include <cmath>
#include <xmmintrin.h>
#include <csignal>
#include <cstring>
#include <map>
#include <stdexcept>
#include <sys/time.h>

using namespace c14;
using sim::Counter;
using sim::json::Value;

namespace
{
    struct Op
    {
        int fn = 0; // index into the table
        uint64_t a[32];
        uint64_t b[32];
        // generation metadata (informational + distinct-state measure)
        int binade = 0, sign = 0, companions = 0, family = 0;
        // ambient floating-point environment of the calling thread during the call (MXCSR): bits 0-1 rounding mode
        // (0 nearest, 1 downward, 2 upward, 3 toward zero), bit 2 flush-to-zero, bit 3 denormals-are-zero
        int fpenv = 0;
    };
    const char* RNDNAME[4] = { "nearest", "downward", "upward", "towardzero" };
    using PlanT = std::vector<Op>;

    Counter c_calls("sim", "calls"), c_ticks("sim", "ticks(simulated_time)");
    Counter c_blocks("sim", "basic_blocks_executed"), p_over10k_blocks("probe", "call_executed_more_than_2000_basic_blocks"), cl_blocks("info", "block_budget_exceeded(only_on_violation)");
    Counter p_blast("probe", "calls_with_wide_independent_lanes(blast_family)");
    Counter p_nearpi("probe", "principal_lane_near_a_multiple_of_pi/2(continued_fraction_worst_case)");
    Counter cl_budget("clause", "call_returned_within_tick_and_block_budget"), cl_backstop("clause", "plan_finished_under_cpu_watchdog");
    Counter p_tick_calls("probe", "calls_that_reached_a_tick_site"), p_mixed("probe", "calls_with_mixed_lane_vectors"), p_special("probe", "calls_with_inf_nan_or_denormal_principal"),
        p_huge("probe", "calls_with_principal_magnitude_ge_2^24"), p_over100("probe", "calls_with_more_than_100_ticks");
    Counter f_mag("fault_configured", "none(property has no fault; the seeded dimension is the lane vector)");
    Counter f_env("fault_fired", "call_in_non_default_fp_environment(rounding_mode/FTZ/DAZ)");

    sim::DistinctSet d_all("call_tuples"), d_tick("tick_reaching_tuples");

    sigjmp_buf g_watchdog_jb;
    volatile sig_atomic_t g_watchdog_armed = 0;
    // The backstop reads a real clock (CPU time of this process), which the host can distort: a paused or starved VM charges the pause to whatever
    // was running. So (1) the timer only counts while the process is INSIDE a library call - never in harness code, where a longjmp out of
    // malloc would corrupt the process - and (2) it takes WATCHDOG_EXPIRIES separate expiries within one and the same call, a quarter of the
    // allowance each, to declare a stall: one jump of the clock yields one expiry. (3) A stall that does not show again when the plan is
    // re-executed is dropped as a clock artefact (real_clock_class below); a real stall is a function of the plan and always shows again.
    constexpr int WATCHDOG_EXPIRIES = 4;
    volatile sig_atomic_t g_in_call = 0, g_expiries = 0;
    volatile uint64_t g_call_seq = 0, g_expiry_seq = ~0ull;
    void on_vtalrm(int)
    {
        if (!g_watchdog_armed || !g_in_call)
            return;
        if (g_expiry_seq != g_call_seq)
        {
            g_expiry_seq = g_call_seq;
            g_expiries = 0;
        }
        if (++g_expiries >= WATCHDOG_EXPIRIES)
        {
            g_watchdog_armed = 0;
            g_in_call = 0;
            siglongjmp(g_watchdog_jb, 1);
        }
    }

    const double THRESHOLDS[] = { -34, -33, -32.5, 0, 0.5, 0.75, 1, 1.25, 1.5, 2, 2.5, 3, 6.5, 13, 26.8, 35.04, 35.0399971, 36, 143.01608, 171.624, 172, 173,
                                  0.7853981633974483, 1.5707963267948966, 3.141592653589793, 62.83185307179586, 411774.0, 281474976710656.0 * 3.141592653589793, 16777216.0, 9007199254740992.0,
                                  88.7, 709.7, -87.3, -708.4, 127, 128, 1023, 1024, 0.41421356, 1e-4, 1e-8 };
    const double COMPANION_OTHER_SIDE[] = { 1.0, 0.5, 2.5, -0.5, 7.0, 14.0, -40.0, 200.0, -1e6, 1e6, 0.0, 1e-30, -33.5, -34.5, 3.0, 100.5 };

    struct C14Harness : sim::HarnessBase
    {
        using Plan = PlanT;
        static const char* id() { return "C14"; }
        std::vector<FnEntry> table;
        std::map<std::string, int> index;
        std::map<std::string, uint64_t> max_ticks; // per "fn/type"
        std::map<std::string, uint64_t> max_blocks; // per "fn/type/arch-width": basic blocks of one call
        uint64_t last_blocks = 0;
        bool last_block_exceeded = false;
        bool last_stack_exceeded = false;
        bool last_stalled = false;
        uint64_t max_ops = 64;
        bool finite_only = false; // the build promised the library no inf/NaN/denormal inputs (XSIMD_NO_* macros): generate none
        uint64_t watchdog_ms = 400;
        std::vector<uint64_t> nearpi_f32, nearpi_f64; // hard cases of trigonometric argument reduction (nearpi.hpp)
        std::string only_fn;

        C14Harness()
        {
            register_sse2(table);
            register_avx2(table);
            register_avx512f(table);
            register_emulated128(table);
            register_sse4_2(table);
            register_avx(table);
            register_fma3_avx2(table);
            register_avx512bw(table);
            register_avx512vnni_vbmi2(table);
            for (size_t i = 0; i < table.size(); ++i)
                index[key(table[i])] = (int)i;
            nearpi_table(true, nearpi_f32);
            nearpi_table(false, nearpi_f64);
            struct sigaction sa;
            memset(&sa, 0, sizeof sa);
            sa.sa_handler = on_vtalrm;
            sa.sa_flags = SA_RESTART;
            sigemptyset(&sa.sa_mask);
            sigaction(SIGVTALRM, &sa, nullptr);
        }
        // the backstop timer runs for the whole life of the process (a SIGVTALRM per slice of CPU time); the handler ignores every expiry that does
        // not fall inside a library call, so every mode - plans, walks, sweeps - is covered by the same rule
        void start_watchdog_timer()
        {
            struct itimerval tv;
            memset(&tv, 0, sizeof tv);
            const uint64_t slice_us = std::max<uint64_t>(1000, watchdog_ms * 1000 / WATCHDOG_EXPIRIES);
            tv.it_value.tv_sec = tv.it_interval.tv_sec = (long)(slice_us / 1000000);
            tv.it_value.tv_usec = tv.it_interval.tv_usec = (long)(slice_us % 1000000);
            setitimer(ITIMER_VIRTUAL, &tv, nullptr);
        }
        static std::string key(const FnEntry& e) { return std::string(e.name) + "/" + e.tname + "/" + e.arch; }
        void configure(const sim::Params& p)
        {
            max_ops = p.u64("max_ops", 64);
            tick_clock().budget = p.u64("budget", 4096);
            tick_clock().block_budget = p.u64("block_budget", 1u << 18);
            watchdog_ms = p.u64("watchdog_ms", 400);
            start_watchdog_timer();
            only_fn = p.str("only_fn", "");
            finite_only = p.u64("finite_only", 0) != 0;
        }
        uint64_t shrink_budget() const { return 400; }
        bool real_clock_class(const std::string& cls) const { return cls.compare(0, 37, "C14/stall-outside-instrumented-loops(") == 0; }

        // the clock must be wired: a dummy loop of 10000 ticks has to hit the budget
        void startup_selftest()
        {
            Clock& c = tick_clock();
            c.begin_call();
            c.armed = true;
            volatile int reached = 0;
            if (setjmp(c.jb) == 0)
            {
                for (int i = 0; i < 10000; ++i)
                    xsimd_verif_loop_tick("selftest", 1);
                reached = 1;
            }
            c.armed = false;
            if (reached || c.ticks != c.budget + 1)
                throw std::runtime_error("C14 self-test: the tick clock did not stop a 10000-step loop at the budget");
            c.n_sites = 0;
            c.total = 0;
            // and a real kernel must tick it (hook compiled in)
            Op op;
            op.fn = index.at("tgamma/f64/sse2");
            for (int i = 0; i < 32; ++i)
            {
                double v = 10.5;
                memcpy(&op.a[i], &v, 8);
                op.b[i] = 0;
            }
            uint64_t t = 0;
            bool exceeded = false;
            run_call(op, t, exceeded, nullptr);
            if (t == 0)
                throw std::runtime_error("C14 self-test: tgamma(10.5) produced no tick - XSIMD_VERIF_LOOP_TICK hooks are not compiled in");
            if (last_blocks == 0)
                throw std::runtime_error("C14 self-test: tgamma(10.5) advanced the basic-block clock by 0 - the kernels are not compiled with -fsanitize-coverage=trace-pc");
            {
                // and the block budget must stop a call: with a budget of 3 blocks the same call has to be aborted
                uint64_t keep = c.block_budget;
                c.block_budget = 3;
                run_call(op, t, exceeded, nullptr);
                c.block_budget = keep;
                if (!exceeded || !last_block_exceeded)
                    throw std::runtime_error("C14 self-test: the basic-block clock did not stop a call at its budget");
            }
            c.n_sites = 0;
            c.total = 0;
        }

        // ------------------------------------------------------------------ lane generation
        template <class F>
        static uint64_t bits_of(F v)
        {
            uint64_t u = 0;
            memcpy(&u, &v, sizeof v);
            return u;
        }
        static uint64_t from_double(double v, bool f32) { return f32 ? bits_of((float)v) : bits_of(v); }

        uint64_t principal(sim::Rng& rng, bool f32, Op& meta)
        {
            const int ebits = f32 ? 8 : 11, mbits = f32 ? 23 : 52;
            const uint64_t emax = (1ull << ebits) - 1;
            uint64_t sign = rng.coin();
            meta.sign = (int)sign;
            meta.family = (int)rng.below(9);
            switch (meta.family)
            {
            case 8: // unusually close to a multiple of pi/2, at every magnitude (continued-fraction worst cases, see nearpi.hpp)
            {
                const std::vector<uint64_t>& t = f32 ? nearpi_f32 : nearpi_f64;
                uint64_t u = t[rng.below(t.size())];
                if (rng.chance(1, 8))
                    u = (uint64_t)((int64_t)u + rng.range(-2, 2)); // and their immediate neighbours
                u |= sign << (ebits + mbits);
                meta.binade = (int)((u >> mbits) & emax);
                ++p_nearpi;
                return u;
            }
            case 0:
            case 1:
            case 2: // every binade equally likely, random mantissa
            {
                uint64_t e = rng.below(emax); // excludes inf/nan exponent
                if (finite_only && e == 0)
                    e = 1; // no denormals
                uint64_t m = rng.next() & ((1ull << mbits) - 1);
                if (rng.chance(1, 4))
                    m = 0; // exact power of two
                meta.binade = (int)e;
                return (sign << (ebits + mbits)) | (e << mbits) | m;
            }
            case 3: // specials
            {
                meta.binade = -1;
                uint64_t s = sign << (ebits + mbits);
                switch (finite_only ? (rng.coin() ? 0 : 6 + rng.below(2)) : rng.below(8))
                {
                case 0:
                    return s; // +-0
                case 1:
                    return s | 1; // smallest denormal
                case 2:
                    return s | (rng.next() & ((1ull << mbits) - 1)); // random denormal
                case 3:
                    return s | (emax << mbits); // +-inf
                case 4:
                    return s | (emax << mbits) | (1ull << (mbits - 1)); // quiet NaN
                case 5:
                    return s | (emax << mbits) | 1; // signalling NaN
                case 6:
                    return s | ((emax - 1) << mbits) | ((1ull << mbits) - 1); // +-MAX
                default:
                    return s | (1ull << mbits); // +-MIN normal
                }
            }
            case 4:
            case 5: // near an algorithm threshold
            {
                double t = THRESHOLDS[rng.below(sizeof THRESHOLDS / sizeof *THRESHOLDS)];
                if (rng.coin())
                    t = -t;
                switch (rng.below(4))
                {
                case 0:
                    break;
                case 1:
                    t += 0.5;
                    break;
                case 2:
                    t -= 0.5;
                    break;
                default:
                    break;
                }
                uint64_t u = from_double(t, f32);
                int64_t ulps = rng.range(-3, 3);
                u = (uint64_t)((int64_t)u + ulps);
                meta.binade = (int)((u >> mbits) & emax);
                meta.sign = (int)(u >> (ebits + mbits));
                return u;
            }
            case 6: // integers and half-integers
            {
                double t = (double)rng.range(-400, 400) / 2.0;
                if (rng.chance(1, 4))
                    t = std::ldexp(1.0, (int)rng.range(0, f32 ? 127 : 1023)) * (sign ? -1 : 1) + (rng.coin() ? 0.5 : 0.0);
                uint64_t u = from_double(t, f32);
                meta.binade = (int)((u >> mbits) & emax);
                meta.sign = (int)(u >> (ebits + mbits));
                return u;
            }
            default: // large magnitudes: the place where trip counts proportional to |x| show
            {
                uint64_t lo = (f32 ? 127 : 1023) + 20;
                uint64_t e = lo + rng.below(emax - lo);
                uint64_t m = rng.next() & ((1ull << mbits) - 1);
                meta.binade = (int)e;
                return (sign << (ebits + mbits)) | (e << mbits) | m;
            }
            }
        }

        void fill_lanes(sim::Rng& rng, const FnEntry& fe, uint64_t* lanes, Op& meta, bool record)
        {
            const bool f32 = fe.elem_size == 4;
            Op scratch;
            Op& m = record ? meta : scratch;
            uint64_t p = principal(rng, f32, m);
            int comp = (int)rng.below(5);
            if (record)
                meta.companions = comp;
            int pos = (int)rng.below((uint64_t)fe.lanes);
            for (int i = 0; i < fe.lanes; ++i)
            {
                switch (comp)
                {
                case 0:
                    lanes[i] = p; // copies of the principal lane
                    break;
                case 1:
                    lanes[i] = from_double(1.0, f32);
                    break;
                case 2:
                    lanes[i] = from_double(COMPANION_OTHER_SIDE[rng.below(sizeof COMPANION_OTHER_SIDE / sizeof *COMPANION_OTHER_SIDE)], f32);
                    break;
                case 3:
                {
                    Op tmp;
                    lanes[i] = principal(rng, f32, tmp); // independent principals in every lane
                    break;
                }
                default:
                    lanes[i] = rng.coin() ? p : from_double(COMPANION_OTHER_SIDE[rng.below(sizeof COMPANION_OTHER_SIDE / sizeof *COMPANION_OTHER_SIDE)], f32);
                    break;
                }
            }
            lanes[pos] = p;
            for (int i = fe.lanes; i < 32; ++i)
                lanes[i] = 0;
        }

        void fill_int_lanes(sim::Rng& rng, const FnEntry& fe, uint64_t* lanes)
        {
            const bool f32 = fe.elem_size == 4;
            for (int i = 0; i < 32; ++i)
            {
                int64_t v;
                switch (rng.below(6))
                {
                case 0:
                    v = rng.range(-5, 5);
                    break;
                case 1:
                    v = f32 ? INT32_MAX : INT64_MAX;
                    break;
                case 2:
                    v = f32 ? INT32_MIN : INT64_MIN;
                    break;
                case 3:
                    v = rng.range(-2000, 2000);
                    break;
                case 4:
                    v = (int64_t)(rng.next() >> (f32 ? 33 : 1)) * (rng.coin() ? 1 : -1);
                    break;
                default:
                    v = (int64_t)1 << rng.below(f32 ? 31 : 63);
                    break;
                }
                lanes[i] = f32 ? (uint64_t)(uint32_t)(int32_t)v : (uint64_t)v;
            }
        }

        // lanes of an integer batch, as raw 64-bit words of the 256-byte operand buffer (32-bit elements: one lane per word, see run_call)
        void fill_raw_int(sim::Rng& rng, const FnEntry& fe, uint64_t* words)
        {
            const int bits = 8 * fe.elem_size;
            const uint64_t lane_mask = bits == 64 ? ~0ull : ((1ull << bits) - 1);
            auto rep = [&](uint64_t lane) -> uint64_t
            {
                lane &= lane_mask;
                if (bits == 32 || bits == 64)
                    return lane; // 32-bit lanes are packed from the low half of each word
                uint64_t w = 0;
                for (int k = 0; k < 64; k += bits)
                    w |= lane << k;
                return w;
            };
            unsigned mode = (unsigned)rng.below(4);
            for (int i = 0; i < 32; ++i)
            {
                uint64_t w;
                switch (mode == 3 ? rng.below(7) : rng.below(7) % (mode + 5))
                {
                case 0:
                    w = rng.next();
                    break;
                case 1:
                    w = rep(0);
                    break;
                case 2:
                    w = rep(lane_mask); // -1 / UMAX
                    break;
                case 3:
                    w = rep(1ull << (bits - 1)); // MIN of the signed type
                    break;
                case 4:
                    w = rep((1ull << (bits - 1)) - 1); // MAX of the signed type
                    break;
                case 5:
                    w = rep(rng.below(8));
                    break;
                default:
                    w = rep(1ull << rng.below((uint64_t)bits));
                    break;
                }
                words[i] = w;
            }
        }

        Plan generate(sim::Rng& rng)
        {
            Plan plan;
            uint64_t n = 1 + rng.below(max_ops);
            // swarm: a run concentrates on a few functions (half of the time on the ones that contain loops)
            std::vector<int> pool;
            unsigned focus = (unsigned)rng.below(4);
            unsigned k = 1 + (unsigned)rng.below(6);
            static const char* LOOPY[] = { "tgamma", "lgamma", "sin", "cos", "tan", "sincos", "csin", "ccos", "ctan", "cexp", "cpow", "csinh", "ccosh", "ctanh" };
            while (pool.size() < k)
            {
                int f = (int)rng.below(table.size());
                if (!only_fn.empty() && only_fn != table[(size_t)f].name)
                    continue;
                if (focus < 2 && only_fn.empty())
                {
                    bool loopy = false;
                    for (const char* l : LOOPY)
                        loopy |= !strcmp(l, table[(size_t)f].name);
                    if (!loopy)
                        continue;
                }
                pool.push_back(f);
            }
            // swarm: three quarters of the runs use the default floating-point environment; the others run in an application-set one
            // (directed rounding as interval arithmetic uses it, flush-to-zero/denormals-are-zero as audio and ML code set them)
            const int run_env = rng.chance(3, 4) ? 0 : (int)rng.below(16);
            const bool env_per_op = rng.chance(1, 4);
            for (uint64_t i = 0; i < n; ++i)
            {
                Op op;
                op.fn = pool[rng.below(pool.size())];
                op.fpenv = run_env && env_per_op ? (int)rng.below(16) : run_env;
                const FnEntry& fe = table[(size_t)op.fn];
                if (fe.tname[0] != 'f')
                {
                    // integer batches: raw lane words (extremes, small values, random bits)
                    fill_raw_int(rng, fe, op.a);
                    fill_raw_int(rng, fe, op.b);
                    op.family = 8;
                    op.binade = (int)(op.a[0] & 63);
                    op.sign = (int)(op.a[0] >> 63);
                    op.companions = 3;
                    plan.push_back(op);
                    continue;
                }
                fill_lanes(rng, fe, op.a, op, true);
                if (fe.arity == 2 && fe.second_is_int)
                    fill_int_lanes(rng, fe, op.b);
                else if (fe.arity == 2)
                    fill_lanes(rng, fe, op.b, op, false);
                else
                    memset(op.b, 0, sizeof op.b);
                plan.push_back(op);
            }
            return plan;
        }

        // ------------------------------------------------------------------ execution
        // returns false if the tick budget was exceeded (longjmp out of the kernel)
        void run_call(const Op& op, uint64_t& ticks, bool& exceeded, uint64_t* out_hash)
        {
            const FnEntry& fe = table[(size_t)op.fn];
            alignas(64) unsigned char in_a[256], in_b[256], outb[512];
            if (fe.elem_size == 4)
                for (int i = 0; i < 32; ++i)
                {
                    uint32_t x = (uint32_t)op.a[i], y = (uint32_t)op.b[i];
                    memcpy(in_a + 4 * i, &x, 4);
                    memcpy(in_b + 4 * i, &y, 4);
                }
            else
            {
                memcpy(in_a, op.a, 256);
                memcpy(in_b, op.b, 256);
            }
            memset(outb, 0, sizeof outb);
            Clock& c = tick_clock();
            c.begin_call();
            exceeded = false;
            const unsigned csr_default = _mm_getcsr();
            if (op.fpenv)
            {
                unsigned csr = csr_default & ~(0x6000u | 0x8000u | 0x0040u);
                csr |= (unsigned)(op.fpenv & 3) << 13; // RC
                if (op.fpenv & 4)
                    csr |= 0x8000u; // FTZ
                if (op.fpenv & 8)
                    csr |= 0x0040u; // DAZ
                _mm_setcsr(csr);
                ++f_env;
            }
            char here;
            c.sp0 = &here;
            last_stalled = false;
            if (sigsetjmp(g_watchdog_jb, 0) != 0)
            {
                // the CPU-time backstop fired WATCHDOG_EXPIRIES times inside this one call (handler -> here; the signal is still blocked)
                sigset_t m;
                sigemptyset(&m);
                sigaddset(&m, SIGVTALRM);
                sigprocmask(SIG_UNBLOCK, &m, nullptr);
                c.armed = false;
                _mm_setcsr(0x1f80);
                exceeded = true;
                last_stalled = true;
                last_stack_exceeded = false;
                last_block_exceeded = false;
                ticks = c.ticks;
                last_blocks = c.blocks;
                if (out_hash)
                    *out_hash = 0;
                return;
            }
            c.armed = true;
            g_call_seq = g_call_seq + 1;
            g_watchdog_armed = 1;
            g_in_call = 1;
            if (setjmp(c.jb) == 0)
                fe.call(in_a, in_b, outb);
            else
                exceeded = true;
            g_in_call = 0;
            g_watchdog_armed = 0;
            c.armed = false;
            last_stack_exceeded = c.stack_exceeded;
            _mm_setcsr(csr_default & ~0x3fu); // back to the default environment, sticky exception flags cleared
            ticks = c.ticks;
            last_blocks = c.blocks;
            last_block_exceeded = c.block_exceeded;
            if (out_hash)
                *out_hash = exceeded ? 0 : sim::fnv1a(outb, sizeof outb);
        }

        std::string site_name(int s) const
        {
            const Clock& c = tick_clock();
            if (s < 0 || s >= c.n_sites)
                return "?";
            return sim::fmt("%s:%d", c.sites[s].file, c.sites[s].line);
        }

        sim::Outcome execute(const Plan& plan, sim::Log& log)
        {
            sim::Outcome out;
            volatile size_t cur = 0;
            for (cur = 0; cur < plan.size(); cur = cur + 1)
            {
                const Op& op = plan[cur];
                const FnEntry& fe = table[(size_t)op.fn];
                uint64_t ticks = 0, oh = 0;
                bool exceeded = false;
                run_call(op, ticks, exceeded, &oh);
                if (last_stalled)
                {
                    // a stall at a site that has neither a loop tick nor a basic block of instrumented code
                    out.violate(sim::fmt("C14/stall-outside-instrumented-loops(%s,%s)", fe.name, fe.tname),
                                sim::fmt("%s<%s,%s> consumed more than %llu ms of CPU time in one call without exceeding the tick or block budget", fe.name, fe.tname, fe.arch, (unsigned long long)watchdog_ms));
                    log.rec("stall", (uint64_t)op.fn);
                    out.ops_executed = cur + 1;
                    return out;
                }
                ++c_calls;
                ++cl_budget;
                c_ticks += ticks;
                const uint64_t blocks = last_blocks;
                const bool block_exceeded = last_block_exceeded;
                c_blocks += blocks;
                log.rec(fe.name, (uint64_t)op.fn, ticks, oh, (uint64_t)exceeded | (blocks << 1));
                {
                    uint64_t& mb = max_blocks[std::string(fe.name) + "/" + fe.tname + "/" + std::to_string(fe.lanes) + "lanes"];
                    if (blocks > mb)
                        mb = blocks;
                }
                if (blocks > 2000)
                    ++p_over10k_blocks;
                std::string fk = std::string(fe.name) + "/" + fe.tname;
                uint64_t& mt = max_ticks[fk];
                if (ticks > mt)
                    mt = ticks;
                uint64_t tuple = sim::hash_u64(sim::hash_u64(sim::fnv1a_str(fk), (uint64_t)fe.lanes),
                                               ((uint64_t)(uint32_t)op.binade << 16) ^ ((uint64_t)op.sign << 8) ^ (uint64_t)op.companions ^ ((uint64_t)op.family << 12));
                d_all.add(tuple);
                if (ticks)
                {
                    ++p_tick_calls;
                    d_tick.add(tuple);
                }
                if (ticks > 100)
                    ++p_over100;
                if (op.companions >= 2)
                    ++p_mixed;
                if (op.family == 3)
                    ++p_special;
                if (op.family == 7)
                    ++p_huge;
                if (exceeded && last_stack_exceeded)
                    out.violate(sim::fmt("C14/stack-budget-exceeded(%s,%s)", fe.name, fe.tname),
                                sim::fmt("%s<%s,%s>: the call went more than %llu bytes deep into the stack (runaway recursion; lane 0 bits 0x%llx)", fe.name, fe.tname, fe.arch,
                                         (unsigned long long)tick_clock().stack_budget, (unsigned long long)op.a[0]));
                else if (exceeded && block_exceeded)
                {
                    ++cl_blocks;
                    out.violate(sim::fmt("C14/block-budget-exceeded(%s,%s)", fe.name, fe.tname),
                                sim::fmt("%s<%s,%s>: more than %llu basic blocks executed in one call (simulated block clock; pc offset %p in the kernels' code; lane 0 bits 0x%llx)", fe.name,
                                         fe.tname, fe.arch, (unsigned long long)tick_clock().block_budget, tick_clock().block_pc, (unsigned long long)op.a[0]));
                }
                else if (exceeded)
                {
                    int s = tick_clock().exceeded_site;
                    out.violate(sim::fmt("C14/budget-exceeded(%s,%s)@%s", fe.name, fe.tname, site_name(s).c_str()),
                                sim::fmt("%s<%s,%s>: more than %llu loop steps in one call at %s (lane 0 bits 0x%llx)", fe.name, fe.tname, fe.arch, (unsigned long long)tick_clock().budget,
                                         site_name(s).c_str(), (unsigned long long)op.a[0]));
                }
            }
            ++cl_backstop;
            out.ops_executed = plan.size();
            return out;
        }

        void extra_report(Value& rep)
        {
            Value mt = Value::object();
            for (auto& kv : max_ticks)
                if (kv.second)
                    mt.set("max_" + kv.first, (unsigned long long)kv.second);
            rep.set("x_max_ticks_per_call", mt);
            Value mb = Value::object();
            for (auto& kv : max_blocks)
                mb.set("max_" + kv.first, (unsigned long long)kv.second);
            rep.set("x_max_basic_blocks_per_call", mb);
            Value st = Value::object(), sm = Value::object();
            const Clock& c = tick_clock();
            for (int i = 0; i < c.n_sites; ++i)
            {
                st.set(sim::fmt("%s:%d", c.sites[i].file, c.sites[i].line), (unsigned long long)c.sites[i].total);
                sm.set(sim::fmt("max_%s:%d", c.sites[i].file, c.sites[i].line), (unsigned long long)c.sites[i].max_in_call);
            }
            rep.set("x_tick_site_totals", st);
            rep.set("x_tick_site_max_per_call", sm);
        }

        // ------------------------------------------------------------------ (de)serialisation
        Value to_json(const Plan& plan)
        {
            Value arr = Value::array();
            for (const Op& op : plan)
            {
                const FnEntry& fe = table[(size_t)op.fn];
                Value o = Value::object();
                o.set("f", fe.name).set("T", fe.tname).set("arch", fe.arch);
                Value la = Value::array(), lb = Value::array(), dec = Value::array();
                for (int i = 0; i < fe.lanes; ++i)
                {
                    la.push(fe.elem_size == 4 ? sim::json::hex32((uint32_t)op.a[i]) : sim::json::hex64(op.a[i]));
                    double v;
                    if (fe.elem_size == 4)
                    {
                        float f;
                        uint32_t u = (uint32_t)op.a[i];
                        memcpy(&f, &u, 4);
                        v = f;
                    }
                    else
                        memcpy(&v, &op.a[i], 8);
                    dec.push(std::isfinite(v) ? Value(v) : Value(std::isnan(v) ? "nan" : (v > 0 ? "+inf" : "-inf")));
                }
                o.set("lanes", la).set("lanes_decoded", dec);
                if (fe.arity == 2)
                {
                    for (int i = 0; i < fe.lanes; ++i)
                        lb.push(fe.elem_size == 4 ? sim::json::hex32((uint32_t)op.b[i]) : sim::json::hex64(op.b[i]));
                    o.set("lanes2", lb);
                }
                if (op.fpenv)
                    o.set("fpenv", Value::object().set("rounding", RNDNAME[op.fpenv & 3]).set("ftz", (op.fpenv >> 2) & 1).set("daz", (op.fpenv >> 3) & 1));
                o.set("gen", Value::object().set("family", op.family).set("binade", op.binade).set("sign", op.sign).set("companions", op.companions));
                arr.push(o);
            }
            return arr;
        }
        Plan from_json(const Value& arr)
        {
            Plan plan;
            for (const Value& o : arr.a)
            {
                Op op;
                std::string k = o.at("f").as_string() + "/" + o.at("T").as_string() + "/" + o.at("arch").as_string();
                auto it = index.find(k);
                if (it == index.end())
                    throw std::runtime_error("unknown function/type/arch " + k);
                op.fn = it->second;
                memset(op.a, 0, sizeof op.a);
                memset(op.b, 0, sizeof op.b);
                const Value& la = o.at("lanes");
                for (size_t i = 0; i < la.a.size() && i < 32; ++i)
                    op.a[i] = la.a[i].as_u64();
                if (o.has("lanes2"))
                    for (size_t i = 0; i < o.at("lanes2").a.size() && i < 32; ++i)
                        op.b[i] = o.at("lanes2").a[i].as_u64();
                if (o.has("fpenv"))
                {
                    const Value& e = o.at("fpenv");
                    std::string r = e.get_str("rounding", "nearest");
                    for (int k = 0; k < 4; ++k)
                        if (r == RNDNAME[k])
                            op.fpenv = k;
                    op.fpenv |= (int)e.get_u64("ftz", 0) << 2 | (int)e.get_u64("daz", 0) << 3;
                }
                if (o.has("gen"))
                {
                    op.family = (int)o.at("gen").get_u64("family", 0);
                    op.binade = (int)o.at("gen").at("binade").as_i64();
                    op.sign = (int)o.at("gen").get_u64("sign", 0);
                    op.companions = (int)o.at("gen").get_u64("companions", 0);
                }
                plan.push_back(op);
            }
            return plan;
        }

        // ------------------------------------------------------------------ shrinking support
        size_t n_ops(const Plan& p) { return p.size(); }
        Plan without_ops(const Plan& p, const std::vector<bool>& keep)
        {
            Plan q;
            for (size_t i = 0; i < p.size(); ++i)
                if (keep[i])
                    q.push_back(p[i]);
            return q;
        }
        std::vector<Plan> simpler(const Plan& p)
        {
            std::vector<Plan> out;
            for (size_t i = 0; i < p.size(); ++i)
            {
                const Op& op = p[i];
                const FnEntry& fe = table[(size_t)op.fn];
                const bool f32 = fe.elem_size == 4;
                const uint64_t one = from_double(1.0, f32);
                // back to the default floating-point environment, then one component at a time
                if (op.fpenv)
                {
                    Plan q = p;
                    q[i].fpenv = 0;
                    out.push_back(q);
                    for (int m : { 8, 4, 3 })
                        if (op.fpenv & m)
                        {
                            Plan q2 = p;
                            q2[i].fpenv = op.fpenv & ~m;
                            out.push_back(q2);
                        }
                }
                // move to the narrowest architecture that still shows it
                for (const char* arch : { "sse2" })
                    if (strcmp(fe.arch, arch))
                    {
                        auto it = index.find(std::string(fe.name) + "/" + fe.tname + "/" + arch);
                        if (it != index.end())
                        {
                            Plan q = p;
                            q[i].fn = it->second;
                            out.push_back(q);
                        }
                    }
                // companions -> 1.0, one lane at a time
                for (int l = 0; l < fe.lanes; ++l)
                    if (op.a[l] != one)
                    {
                        Plan q = p;
                        q[i].a[l] = one;
                        out.push_back(q);
                    }
                if (fe.arity == 2 && !fe.second_is_int)
                    for (int l = 0; l < fe.lanes; ++l)
                        if (op.b[l] != one)
                        {
                            Plan q = p;
                            q[i].b[l] = one;
                            out.push_back(q);
                        }
                // halve magnitudes (exponent - 1) and clear mantissas
                const int mbits = f32 ? 23 : 52;
                const uint64_t emask = (f32 ? 0xffull : 0x7ffull) << mbits;
                for (int l = 0; l < fe.lanes; ++l)
                {
                    uint64_t e = (op.a[l] & emask) >> mbits;
                    if (op.a[l] != one && e > 1 && e < (f32 ? 0xffu : 0x7ffu))
                    {
                        Plan q = p;
                        q[i].a[l] = op.a[l] - (1ull << mbits);
                        out.push_back(q);
                    }
                    if (op.a[l] & ((1ull << mbits) - 1))
                    {
                        Plan q = p;
                        q[i].a[l] = op.a[l] & ~((1ull << mbits) - 1);
                        out.push_back(q);
                    }
                }
            }
            return out;
        }

        // ------------------------------------------------------------------ growth table (information only)
        // ticks for principal magnitudes +-2^k on the functions that contain tick sites; any budget overrun is still a violation
        // every entry of the nearpi table (both signs) through every function that reduces an argument modulo pi/2, alone and next to the
        // companions that change how the batch is routed (a lane beyond the medium range, an infinite or NaN lane): the table is small enough
        // to be walked completely, which the main generator (one random entry per draw) cannot do within a quick run
        // walks (nearpi, blast, sweep) stop feeding a function once it has exceeded its budget this many times in this worker: the verdict on it is
        // in, and on a broken tree a walk in which every fourth call burns the whole block budget would otherwise take hours to say it again
        static constexpr uint64_t FLOOD_CAP = 64;
        template <class W>
        bool nearpi_sweep(const sim::Args& args, W& w)
        {
            static const char* TRIG[] = { "sin", "cos", "tan", "sincos", "csin", "ccos", "ctan", "cexp", "csinh", "ccosh", "ctanh", "polar" };
            std::vector<int> fns;
            for (size_t i = 0; i < table.size(); ++i)
            {
                bool trig = false;
                for (const char* t : TRIG)
                    trig |= !strcmp(t, table[i].name);
                if (trig && table[i].tname[0] == 'f' && (!strcmp(table[i].arch, "avx512f") || !strcmp(table[i].arch, "sse2")) && (only_fn.empty() || only_fn == table[i].name))
                    fns.push_back((int)i);
            }
            uint64_t calls = 0, item = 0, cut_short = 0;
            for (int fn : fns)
            {
                const FnEntry& fe = table[(size_t)fn];
                const bool f32 = fe.elem_size == 4;
                const std::vector<uint64_t>& tab = f32 ? nearpi_f32 : nearpi_f64;
                uint64_t fn_exceeded = 0; // a function that exceeded FLOOD_CAP times is decided: the rest of its walk would only repeat the report
                const uint64_t signbit = 1ull << (f32 ? 31 : 63);
                const uint64_t comp[4] = { 0, from_double(1e22, f32), from_double(INFINITY, f32), from_double(NAN, f32) };
                for (size_t k = 0; k < tab.size(); ++k)
                    for (int sg = 0; sg < 2; ++sg)
                        for (int m = 0; m < 4; ++m, ++item)
                        {
                            if (item % args.stride != args.offset || (finite_only && m >= 2))
                                continue;
                            if (fn_exceeded >= FLOOD_CAP)
                            {
                                ++cut_short;
                                continue;
                            }
                            const uint64_t x = tab[k] | (sg ? signbit : 0);
                            auto build = [&]() -> Plan
                            {
                                Op op;
                                op.fn = fn;
                                for (int i = 0; i < 32; ++i)
                                {
                                    op.a[i] = i >= fe.lanes ? 0 : (m == 0 || i == (int)(k % (size_t)fe.lanes)) ? x : (i & 1 ? comp[m] : from_double(1.0, f32));
                                    op.b[i] = i < fe.lanes ? x : 0; // second operand of polar (the angle) gets the same treatment
                                }
                                op.family = 8;
                                op.companions = m ? 2 : 0;
                                op.binade = (int)((x >> (f32 ? 23 : 52)) & (f32 ? 0xff : 0x7ff));
                                op.sign = sg;
                                return Plan { op };
                            };
                            Plan pl = build();
                            uint64_t t = 0;
                            bool ex = false;
                            run_call(pl[0], t, ex, nullptr);
                            ++calls;
                            ++c_calls;
                            ++p_nearpi;
                            c_ticks += t;
                            c_blocks += last_blocks;
                            if (ex)
                            {
                                ++fn_exceeded;
                                w.process(pl, item, item, build);
                            }
                        }
            }
            printf("%s\n", sim::json::dump(Value::object().set("nearpi", Value::object().set("functions", (unsigned long long)fns.size()).set("calls", (unsigned long long)calls).set("cut_short", (unsigned long long)cut_short)
                                                                          .set("table_f32", (unsigned long long)nearpi_f32.size()).set("table_f64", (unsigned long long)nearpi_f64.size()))).c_str());
            return true;
        }

        // "wide independent lanes": for every float/double function on the widest architecture, many calls in which every lane is an independent
        // random value (random significand; exponents either all near one seeded centre or anywhere). Loops of the "iterate until every lane has
        // converged" kind only misbehave for particular COMBINATIONS of ordinary lanes (each lane alone, broadcast, or next to 1.0 is fine), and
        // such combinations are rare (seeded change c14i: 3e-6 per 8-lane batch), so this family trades the variety of the main generator for volume.
        template <class W>
        bool blast(const sim::Args& args, W& w)
        {
            const uint64_t per_fn = args.params.u64("blast_calls", 500000);
            std::vector<int> fns;
            for (size_t i = 0; i < table.size(); ++i)
                if (table[i].tname[0] == 'f' && !strcmp(table[i].arch, "avx512f") && (only_fn.empty() || only_fn == table[i].name))
                    fns.push_back((int)i);
            uint64_t calls = 0;
            for (int fn : fns)
            {
                const FnEntry& fe = table[(size_t)fn];
                const bool f32 = fe.elem_size == 4;
                const int ebits = f32 ? 8 : 11, mbits = f32 ? 23 : 52;
                const uint64_t bias = f32 ? 127 : 1023, emax = (1ull << ebits) - 1;
                auto build = [&](uint64_t i) -> Plan
                {
                    sim::Rng rng(sim::mix3(args.seed, sim::fnv1a_str(key(fe)), i));
                    Op op;
                    op.fn = fn;
                    const unsigned mode = (unsigned)rng.below(5);
                    const uint64_t centre = mode == 0 ? 1 + rng.below(emax - 1) : bias - 8 + rng.below(17);
                    auto lane = [&]() -> uint64_t
                    {
                        if (mode == 4 && !finite_only && rng.coin())
                        {
                            // every lane independently special or ordinary: zeros next to subnormals next to infinities next to NaNs next to normals
                            const uint64_t sg = (uint64_t)rng.coin() << (ebits + mbits);
                            switch (rng.below(6))
                            {
                            case 0:
                                return sg; // +-0
                            case 1:
                                return sg | (1 + rng.below((1ull << mbits) - 1)); // subnormal
                            case 2:
                                return sg | (emax << mbits); // +-inf
                            case 3:
                                return sg | (emax << mbits) | (1 + rng.below((1ull << mbits) - 1)); // NaN
                            case 4:
                                return sg | ((emax - 1) << mbits) | ((1ull << mbits) - 1); // +-MAX
                            default:
                                return sg | (1ull << mbits); // +-MIN normal
                            }
                        }
                        uint64_t e = mode == 3 ? 1 + rng.below(emax - 1) : std::min<uint64_t>(emax - 1, std::max<uint64_t>(1, centre + rng.below(5)) - 2);
                        uint64_t m = rng.next() & ((1ull << mbits) - 1);
                        return ((uint64_t)rng.coin() << (ebits + mbits)) | (e << mbits) | m;
                    };
                    for (int k = 0; k < 32; ++k)
                    {
                        op.a[k] = k < fe.lanes ? lane() : 0;
                        op.b[k] = 0;
                    }
                    if (fe.arity == 2 && fe.second_is_int)
                        fill_int_lanes(rng, fe, op.b);
                    else if (fe.arity == 2)
                        for (int k = 0; k < fe.lanes; ++k)
                            op.b[k] = lane();
                    op.fpenv = rng.chance(3, 4) ? 0 : (int)rng.below(16);
                    op.family = 10;
                    op.companions = 3;
                    op.binade = (int)centre;
                    op.sign = 0;
                    return Plan { op };
                };
                uint64_t fn_exceeded = 0;
                for (uint64_t i = args.offset; i < per_fn && fn_exceeded < FLOOD_CAP; i += args.stride)
                {
                    Plan pl = build(i);
                    uint64_t t = 0;
                    bool ex = false;
                    run_call(pl[0], t, ex, nullptr);
                    ++calls;
                    ++c_calls;
                    ++p_blast;
                    c_ticks += t;
                    c_blocks += last_blocks;
                    if (ex)
                    {
                        ++fn_exceeded;
                        uint64_t idx = ((uint64_t)fn << 40) | i;
                        w.process(pl, idx, idx, [&]() { return build(i); });
                    }
                }
            }
            printf("%s\n", sim::json::dump(Value::object().set("blast", Value::object().set("functions", (unsigned long long)fns.size()).set("calls", (unsigned long long)calls))).c_str());
            return true;
        }

        // completeness backstop of the thorough tier (like C15's census): every float32 bit pattern through every unary float function on the
        // 16-lane avx512f instantiation, 16 consecutive patterns per call, both clocks running. The seeded search stays the deciding step - only it
        // mixes magnitudes within one batch - but the property's quantifier names the exhaustive float32 sweep, and 2^32 arguments are affordable.
        template <class W>
        bool sweep_f32(const sim::Args& args, W& w)
        {
            std::vector<int> fns;
            for (size_t i = 0; i < table.size(); ++i)
                if (table[i].arity == 1 && !strcmp(table[i].tname, "f32") && !strcmp(table[i].arch, "avx512f") && table[i].lanes == 16 && (only_fn.empty() || only_fn == table[i].name))
                    fns.push_back((int)i);
            const uint64_t chunks = (uint64_t)1 << 28;
            uint64_t calls = 0, worst_blocks = 0, worst_ticks = 0;
            Value per_fn = Value::object();
            for (int fn : fns)
            {
                uint64_t fn_worst = 0, fn_exceeded = 0;
                for (uint64_t c = args.offset; c < chunks && fn_exceeded < FLOOD_CAP; c += args.stride)
                {
                    Op op;
                    op.fn = fn;
                    for (int i = 0; i < 32; ++i)
                    {
                        op.a[i] = i < 16 ? c * 16 + (uint64_t)i : 0;
                        op.b[i] = 0;
                    }
                    uint64_t t = 0;
                    bool ex = false;
                    run_call(op, t, ex, nullptr);
                    ++calls;
                    ++c_calls;
                    c_ticks += t;
                    c_blocks += last_blocks;
                    if (last_blocks > fn_worst)
                        fn_worst = last_blocks;
                    if (t > worst_ticks)
                        worst_ticks = t;
                    if (ex)
                    {
                        ++fn_exceeded;
                        op.binade = (int)((op.a[0] >> 23) & 0xff);
                        op.sign = (int)(op.a[0] >> 31);
                        op.family = 9;
                        op.companions = 0;
                        Plan pl { op };
                        uint64_t idx = ((uint64_t)fn << 32) | c;
                        w.process(pl, idx, idx, [&]() { return pl; });
                    }
                }
                if (fn_worst > worst_blocks)
                    worst_blocks = fn_worst;
                per_fn.set(table[(size_t)fn].name, (unsigned long long)fn_worst);
            }
            printf("%s\n", sim::json::dump(Value::object().set("sweep", Value::object().set("functions", (unsigned long long)fns.size()).set("calls", (unsigned long long)calls)
                                                                         .set("max_blocks_per_call", (unsigned long long)worst_blocks).set("max_ticks_per_call", (unsigned long long)worst_ticks)
                                                                         .set("max_blocks_by_function", per_fn))).c_str());
            return true;
        }

        template <class W>
        bool custom_command(const sim::Args& args, W& w)
        {
            if (args.cmd == "sweep")
                return sweep_f32(args, w);
            if (args.cmd == "blast")
                return blast(args, w);
            if (args.cmd == "nearpi")
                return nearpi_sweep(args, w);
            if (args.cmd != "growth")
                return false;
            Value tab = Value::object();
            for (const char* fname : { "tgamma", "lgamma", "sin", "tan" })
                for (const char* tname : { "f32", "f64" })
                {
                    auto it = index.find(std::string(fname) + "/" + tname + "/sse2");
                    if (it == index.end())
                        continue;
                    const FnEntry& fe = table[(size_t)it->second];
                    const bool f32 = fe.elem_size == 4;
                    Value pos = Value::array(), neg = Value::array();
                    for (int sgn = 0; sgn < 2; ++sgn)
                        for (int k = 4; k <= (f32 ? 127 : 1023); k += (f32 ? 3 : 13))
                        {
                            uint64_t idx = (uint64_t)(it->second * 4096 + sgn * 2048 + k);
                            auto build = [&]() -> Plan
                            {
                                Op op;
                                op.fn = it->second;
                                double v = std::ldexp(sgn ? -1.0 : 1.0, k) + (sgn ? 0.5 : 0.0);
                                for (int i = 0; i < 32; ++i)
                                {
                                    op.a[i] = i == 0 ? from_double(v, f32) : from_double(1.0, f32);
                                    op.b[i] = 0;
                                }
                                op.binade = k;
                                op.sign = sgn;
                                op.family = 7;
                                op.companions = 1;
                                return Plan { op };
                            };
                            Plan pl = build();
                            w.process(pl, idx, idx, build);
                            uint64_t t = 0, oh = 0;
                            bool ex = false;
                            run_call(pl[0], t, ex, &oh);
                            (sgn ? neg : pos).push(Value::array().push(k).push((unsigned long long)t));
                        }
                    tab.set(std::string(fname) + "/" + tname, Value::object().set("positive_2^k", pos).set("negative_2^k+0.5", neg));
                }
            printf("%s\n", sim::json::dump(Value::object().set("growth", tab)).c_str());
            return true;
        }
    };
}

int main(int argc, char** argv)
{
    return sim::sim_main<C14Harness>(argc, argv);
}
