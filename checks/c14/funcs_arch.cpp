// compiled once per architecture: -DC14_ARCH=<xsimd arch type> -DC14_ARCHNAME="<name>" -DC14_FN=register_<x>
#include "funcs.hpp"

#include <xsimd/xsimd.hpp>

namespace c14
{
    namespace
    {
        template <class T>
        struct tn;
        template <>
        struct tn<float>
        {
            static const char* name() { return "f32"; }
        };
        template <>
        struct tn<double>
        {
            static const char* name() { return "f64"; }
        };

        template <class T>
        void add_all(std::vector<FnEntry>& out)
        {
            using A = C14_ARCH;
            using B = xsimd::batch<T, A>;
            using I = xsimd::batch<xsimd::as_integer_t<T>, A>;
            using IT = xsimd::as_integer_t<T>;
            const int L = (int)B::size;
            const int ES = (int)sizeof(T);
#define U(NAME)                                                                                        \
    out.push_back(FnEntry { #NAME, tn<T>::name(), C14_ARCHNAME, 1, L, ES, false,                      \
                            [](const void* a, const void*, void* o)                                    \
                            {                                                                          \
                                B x = B::load_unaligned((const T*)a);                                  \
                                B r = xsimd::NAME(x);                                                  \
                                r.store_unaligned((T*)o);                                              \
                            } });
#define BIN(NAME)                                                                                      \
    out.push_back(FnEntry { #NAME, tn<T>::name(), C14_ARCHNAME, 2, L, ES, false,                      \
                            [](const void* a, const void* b, void* o)                                  \
                            {                                                                          \
                                B x = B::load_unaligned((const T*)a);                                  \
                                B y = B::load_unaligned((const T*)b);                                  \
                                B r = xsimd::NAME(x, y);                                               \
                                r.store_unaligned((T*)o);                                              \
                            } });
            U(abs) U(fabs) U(sqrt) U(cbrt) U(rsqrt) U(reciprocal)
            U(exp) U(exp2) U(exp10) U(expm1)
            U(log) U(log2) U(log10) U(log1p)
            U(sin) U(cos) U(tan) U(asin) U(acos) U(atan)
            U(sinh) U(cosh) U(tanh) U(asinh) U(acosh) U(atanh)
            U(erf) U(erfc) U(tgamma) U(lgamma)
            U(ceil) U(floor) U(trunc) U(round) U(nearbyint) U(rint)
            BIN(pow) BIN(atan2) BIN(hypot) BIN(fmod) BIN(remainder) BIN(fdim) BIN(fmin) BIN(fmax) BIN(copysign) BIN(nextafter)
#undef U
#undef BIN
            out.push_back(FnEntry { "sincos", tn<T>::name(), C14_ARCHNAME, 1, L, ES, false,
                                    [](const void* a, const void*, void* o)
                                    {
                                        B x = B::load_unaligned((const T*)a);
                                        auto r = xsimd::sincos(x);
                                        r.first.store_unaligned((T*)o);
                                        r.second.store_unaligned((T*)o + B::size);
                                    } });
            out.push_back(FnEntry { "frexp", tn<T>::name(), C14_ARCHNAME, 1, L, ES, false,
                                    [](const void* a, const void*, void* o)
                                    {
                                        B x = B::load_unaligned((const T*)a);
                                        I e;
                                        B r = xsimd::frexp(x, e);
                                        r.store_unaligned((T*)o);
                                        e.store_unaligned((IT*)((T*)o + B::size));
                                    } });
            out.push_back(FnEntry { "ldexp", tn<T>::name(), C14_ARCHNAME, 2, L, ES, true,
                                    [](const void* a, const void* b, void* o)
                                    {
                                        B x = B::load_unaligned((const T*)a);
                                        I e = I::load_unaligned((const IT*)b);
                                        B r = xsimd::ldexp(x, e);
                                        r.store_unaligned((T*)o);
                                    } });
            out.push_back(FnEntry { "ipow", tn<T>::name(), C14_ARCHNAME, 2, L, ES, true,
                                    [](const void* a, const void* b, void* o)
                                    {
                                        B x = B::load_unaligned((const T*)a);
                                        IT e = *(const IT*)b; // scalar integer exponent: pow(batch, int)
                                        B r = xsimd::pow(x, e);
                                        r.store_unaligned((T*)o);
                                    } });
            // complex functions reuse the real kernels on (|z|, arg z): lanes are interleaved (re, im) pairs
            using CB = xsimd::batch<std::complex<T>, A>;
#define CU(NAME)                                                                                       \
    out.push_back(FnEntry { "c" #NAME, tn<T>::name(), C14_ARCHNAME, 1, 2 * L, ES, false,              \
                            [](const void* a, const void*, void* o)                                    \
                            {                                                                          \
                                CB x = CB::load_unaligned((const std::complex<T>*)a);                  \
                                CB r = xsimd::NAME(x);                                                 \
                                r.store_unaligned((std::complex<T>*)o);                                \
                            } });
            CU(exp) CU(log) CU(log10) CU(sqrt) CU(sin) CU(cos) CU(tan) CU(sinh) CU(cosh) CU(tanh) CU(asin) CU(acos) CU(atan) CU(asinh) CU(acosh) CU(atanh)
#undef CU
            out.push_back(FnEntry { "cpow", tn<T>::name(), C14_ARCHNAME, 2, 2 * L, ES, false,
                                    [](const void* a, const void* b, void* o)
                                    {
                                        CB x = CB::load_unaligned((const std::complex<T>*)a);
                                        CB y = CB::load_unaligned((const std::complex<T>*)b);
                                        CB r = xsimd::pow(x, y);
                                        r.store_unaligned((std::complex<T>*)o);
                                    } });
            out.push_back(FnEntry { "cabs", tn<T>::name(), C14_ARCHNAME, 1, 2 * L, ES, false,
                                    [](const void* a, const void*, void* o)
                                    {
                                        CB x = CB::load_unaligned((const std::complex<T>*)a);
                                        B r = xsimd::abs(x);
                                        r.store_unaligned((T*)o);
                                    } });
        }
    }

    void C14_FN(std::vector<FnEntry>& out)
    {
        add_all<float>(out);
        add_all<double>(out);
    }
}
