// compiled once per architecture: -DC14_ARCH=<xsimd arch type> -DC14_ARCHNAME="<name>" -DC14_FN=register_<x>
#include "funcs.hpp"

#include <complex>
#include <cstring>
#include <type_traits>

#include <xsimd/xsimd.hpp>

namespace c14
{
    namespace
    {
        template <class T>
        struct tn;
        template <>
        struct tn<float>
        {
            static const char* name() { return "f32"; }
        };
        template <>
        struct tn<double>
        {
            static const char* name() { return "f64"; }
        };

        template <class T>
        void add_all(std::vector<FnEntry>& out)
        {
            using A = C14_ARCH;
            using B = xsimd::batch<T, A>;
            using I = xsimd::batch<xsimd::as_integer_t<T>, A>;
            using IT = xsimd::as_integer_t<T>;
            const int L = (int)B::size;
            const int ES = (int)sizeof(T);
#define U(NAME)                                                                                        \
    out.push_back(FnEntry { #NAME, tn<T>::name(), C14_ARCHNAME, 1, L, ES, false,                      \
                            [](const void* a, const void*, void* o)                                    \
                            {                                                                          \
                                B x = B::load_unaligned((const T*)a);                                  \
                                B r = xsimd::NAME(x);                                                  \
                                r.store_unaligned((T*)o);                                              \
                            } });
#define BIN(NAME)                                                                                      \
    out.push_back(FnEntry { #NAME, tn<T>::name(), C14_ARCHNAME, 2, L, ES, false,                      \
                            [](const void* a, const void* b, void* o)                                  \
                            {                                                                          \
                                B x = B::load_unaligned((const T*)a);                                  \
                                B y = B::load_unaligned((const T*)b);                                  \
                                B r = xsimd::NAME(x, y);                                               \
                                r.store_unaligned((T*)o);                                              \
                            } });
            U(abs) U(fabs) U(sqrt) U(cbrt) U(rsqrt) U(reciprocal)
            U(exp) U(exp2) U(exp10) U(expm1)
            U(log) U(log2) U(log10) U(log1p)
            U(sin) U(cos) U(tan) U(asin) U(acos) U(atan)
            U(sinh) U(cosh) U(tanh) U(asinh) U(acosh) U(atanh)
            U(erf) U(erfc) U(tgamma) U(lgamma)
            U(ceil) U(floor) U(trunc) U(round) U(nearbyint) U(rint)
            BIN(pow) BIN(atan2) BIN(hypot) BIN(fmod) BIN(remainder) BIN(fdim) BIN(fmin) BIN(fmax) BIN(copysign) BIN(nextafter)
#undef U
#undef BIN
            out.push_back(FnEntry { "sincos", tn<T>::name(), C14_ARCHNAME, 1, L, ES, false,
                                    [](const void* a, const void*, void* o)
                                    {
                                        B x = B::load_unaligned((const T*)a);
                                        auto r = xsimd::sincos(x);
                                        r.first.store_unaligned((T*)o);
                                        r.second.store_unaligned((T*)o + B::size);
                                    } });
            out.push_back(FnEntry { "frexp", tn<T>::name(), C14_ARCHNAME, 1, L, ES, false,
                                    [](const void* a, const void*, void* o)
                                    {
                                        B x = B::load_unaligned((const T*)a);
                                        I e;
                                        B r = xsimd::frexp(x, e);
                                        r.store_unaligned((T*)o);
                                        e.store_unaligned((IT*)((T*)o + B::size));
                                    } });
            out.push_back(FnEntry { "ldexp", tn<T>::name(), C14_ARCHNAME, 2, L, ES, true,
                                    [](const void* a, const void* b, void* o)
                                    {
                                        B x = B::load_unaligned((const T*)a);
                                        I e = I::load_unaligned((const IT*)b);
                                        B r = xsimd::ldexp(x, e);
                                        r.store_unaligned((T*)o);
                                    } });
            out.push_back(FnEntry { "ipow", tn<T>::name(), C14_ARCHNAME, 2, L, ES, true,
                                    [](const void* a, const void* b, void* o)
                                    {
                                        B x = B::load_unaligned((const T*)a);
                                        IT e = *(const IT*)b; // scalar integer exponent: pow(batch, int)
                                        B r = xsimd::pow(x, e);
                                        r.store_unaligned((T*)o);
                                    } });
            // the rest of the public floating-point surface: straight-line code today, kept under the block clock so that it stays that way
#define U(NAME)                                                                                        \
    out.push_back(FnEntry { #NAME, tn<T>::name(), C14_ARCHNAME, 1, L, ES, false,                      \
                            [](const void* a, const void*, void* o)                                    \
                            {                                                                          \
                                B x = B::load_unaligned((const T*)a);                                  \
                                B r = xsimd::NAME(x);                                                  \
                                r.store_unaligned((T*)o);                                              \
                            } });
#define PRED(NAME)                                                                                     \
    out.push_back(FnEntry { #NAME, tn<T>::name(), C14_ARCHNAME, 1, L, ES, false,                      \
                            [](const void* a, const void*, void* o)                                    \
                            {                                                                          \
                                B x = B::load_unaligned((const T*)a);                                  \
                                uint64_t m = xsimd::NAME(x).mask();                                    \
                                memcpy(o, &m, 8);                                                      \
                            } });
#define BIN(NAME)                                                                                      \
    out.push_back(FnEntry { #NAME, tn<T>::name(), C14_ARCHNAME, 2, L, ES, false,                      \
                            [](const void* a, const void* b, void* o)                                  \
                            {                                                                          \
                                B x = B::load_unaligned((const T*)a);                                  \
                                B y = B::load_unaligned((const T*)b);                                  \
                                B r = xsimd::NAME(x, y);                                               \
                                r.store_unaligned((T*)o);                                              \
                            } });
#define TER(NAME)                                                                                      \
    out.push_back(FnEntry { #NAME, tn<T>::name(), C14_ARCHNAME, 2, L, ES, false,                      \
                            [](const void* a, const void* b, void* o)                                  \
                            {                                                                          \
                                B x = B::load_unaligned((const T*)a);                                  \
                                B y = B::load_unaligned((const T*)b);                                  \
                                B r = xsimd::NAME(x, y, x);                                            \
                                r.store_unaligned((T*)o);                                              \
                            } });
#define RED(NAME)                                                                                      \
    out.push_back(FnEntry { #NAME, tn<T>::name(), C14_ARCHNAME, 1, L, ES, false,                      \
                            [](const void* a, const void*, void* o)                                    \
                            {                                                                          \
                                B x = B::load_unaligned((const T*)a);                                  \
                                T r = xsimd::NAME(x);                                                  \
                                memcpy(o, &r, sizeof r);                                               \
                            } });
            U(sign) U(signnz) U(bitofsign) U(neg)
            PRED(isnan) PRED(isinf) PRED(isfinite) PRED(is_even) PRED(is_odd) PRED(is_flint)
            BIN(add) BIN(sub) BIN(mul) BIN(div) BIN(min) BIN(max)
            TER(fma) TER(fms) TER(fnma) TER(fnms)
            RED(reduce_add) RED(reduce_max) RED(reduce_min)
#undef U
#undef PRED
#undef BIN
#undef TER
#undef RED
            // mask- and index-driven lane movers: their generic kernels loop over lanes under run-time control
            out.push_back(FnEntry { "compress", tn<T>::name(), C14_ARCHNAME, 2, L, ES, false,
                                    [](const void* a, const void* b, void* o)
                                    {
                                        B x = B::load_unaligned((const T*)a);
                                        I m = I::load_unaligned((const IT*)b);
                                        B r = xsimd::compress(x, xsimd::batch_bool_cast<T>((m & I(1)) != I(0)));
                                        r.store_unaligned((T*)o);
                                    } });
            out.push_back(FnEntry { "expand", tn<T>::name(), C14_ARCHNAME, 2, L, ES, false,
                                    [](const void* a, const void* b, void* o)
                                    {
                                        B x = B::load_unaligned((const T*)a);
                                        I m = I::load_unaligned((const IT*)b);
                                        B r = xsimd::expand(x, xsimd::batch_bool_cast<T>((m & I(1)) != I(0)));
                                        r.store_unaligned((T*)o);
                                    } });
            out.push_back(FnEntry { "clip", tn<T>::name(), C14_ARCHNAME, 2, L, ES, false,
                                    [](const void* a, const void* b, void* o)
                                    {
                                        B x = B::load_unaligned((const T*)a);
                                        B y = B::load_unaligned((const T*)b);
                                        B r = xsimd::clip(x, xsimd::min(x, y), xsimd::max(x, y));
                                        r.store_unaligned((T*)o);
                                    } });
            out.push_back(FnEntry { "nearbyint_as_int", tn<T>::name(), C14_ARCHNAME, 1, L, ES, false,
                                    [](const void* a, const void*, void* o)
                                    {
                                        B x = B::load_unaligned((const T*)a);
                                        // keep the argument inside the integer range: the conversion of huge values is not defined for the scalar fallbacks
                                        x = xsimd::clip(xsimd::select(xsimd::isnan(x), B(T(0)), x), B(T(-1e9)), B(T(1e9)));
                                        I r = xsimd::nearbyint_as_int(x);
                                        r.store_unaligned((IT*)o);
                                    } });
            // complex functions reuse the real kernels on (|z|, arg z): lanes are interleaved (re, im) pairs
            using CB = xsimd::batch<std::complex<T>, A>;
#define CU(NAME)                                                                                       \
    out.push_back(FnEntry { "c" #NAME, tn<T>::name(), C14_ARCHNAME, 1, 2 * L, ES, false,              \
                            [](const void* a, const void*, void* o)                                    \
                            {                                                                          \
                                CB x = CB::load_unaligned((const std::complex<T>*)a);                  \
                                CB r = xsimd::NAME(x);                                                 \
                                r.store_unaligned((std::complex<T>*)o);                                \
                            } });
            CU(exp) CU(log) CU(log10) CU(sqrt) CU(sin) CU(cos) CU(tan) CU(sinh) CU(cosh) CU(tanh) CU(asin) CU(acos) CU(atan) CU(asinh) CU(acosh) CU(atanh)
#undef CU
            out.push_back(FnEntry { "cpow", tn<T>::name(), C14_ARCHNAME, 2, 2 * L, ES, false,
                                    [](const void* a, const void* b, void* o)
                                    {
                                        CB x = CB::load_unaligned((const std::complex<T>*)a);
                                        CB y = CB::load_unaligned((const std::complex<T>*)b);
                                        CB r = xsimd::pow(x, y);
                                        r.store_unaligned((std::complex<T>*)o);
                                    } });
#define CR(NAME)                                                                                       \
    out.push_back(FnEntry { "c" #NAME, tn<T>::name(), C14_ARCHNAME, 1, 2 * L, ES, false,              \
                            [](const void* a, const void*, void* o)                                    \
                            {                                                                          \
                                CB x = CB::load_unaligned((const std::complex<T>*)a);                  \
                                B r = xsimd::NAME(x);                                                  \
                                r.store_unaligned((T*)o);                                              \
                            } });
            CR(arg) CR(norm)
#undef CR
            out.push_back(FnEntry { "cconj", tn<T>::name(), C14_ARCHNAME, 1, 2 * L, ES, false,
                                    [](const void* a, const void*, void* o)
                                    {
                                        CB x = CB::load_unaligned((const std::complex<T>*)a);
                                        CB r = xsimd::conj(x);
                                        r.store_unaligned((std::complex<T>*)o);
                                    } });
            out.push_back(FnEntry { "cproj", tn<T>::name(), C14_ARCHNAME, 1, 2 * L, ES, false,
                                    [](const void* a, const void*, void* o)
                                    {
                                        CB x = CB::load_unaligned((const std::complex<T>*)a);
                                        CB r = xsimd::proj(x);
                                        r.store_unaligned((std::complex<T>*)o);
                                    } });
            out.push_back(FnEntry { "polar", tn<T>::name(), C14_ARCHNAME, 2, L, ES, false,
                                    [](const void* a, const void* b, void* o)
                                    {
                                        B x = B::load_unaligned((const T*)a);
                                        B y = B::load_unaligned((const T*)b);
                                        CB r = xsimd::polar(x, y);
                                        r.store_unaligned((std::complex<T>*)o);
                                    } });
            out.push_back(FnEntry { "cabs", tn<T>::name(), C14_ARCHNAME, 1, 2 * L, ES, false,
                                    [](const void* a, const void*, void* o)
                                    {
                                        CB x = CB::load_unaligned((const std::complex<T>*)a);
                                        B r = xsimd::abs(x);
                                        r.store_unaligned((T*)o);
                                    } });
        }
    }

    namespace
    {
        template <class T>
        struct itn;
#define C14_ITN(T, N)                          \
    template <>                                \
    struct itn<T>                              \
    {                                          \
        static const char* name() { return N; } \
    };
        C14_ITN(int8_t, "i8")
        C14_ITN(uint8_t, "u8")
        C14_ITN(int16_t, "i16")
        C14_ITN(uint16_t, "u16")
        C14_ITN(int32_t, "i32")
        C14_ITN(uint32_t, "u32")
        C14_ITN(int64_t, "i64")
        C14_ITN(uint64_t, "u64")
#undef C14_ITN

        // compress/expand on integer batches: 32- and 64-bit elements only (the 8/16-bit forms do not compile on every architecture in 13.2.0)
        template <class T>
        typename std::enable_if<(sizeof(T) < 4)>::type add_int_movers(std::vector<FnEntry>&)
        {
        }
        template <class T>
        typename std::enable_if<(sizeof(T) >= 4)>::type add_int_movers(std::vector<FnEntry>& out)
        {
            using A = C14_ARCH;
            using B = xsimd::batch<T, A>;
            const int L = (int)B::size;
            const int ES = (int)sizeof(T);
            out.push_back(FnEntry { "compress", itn<T>::name(), C14_ARCHNAME, 2, L, ES, false,
                                    [](const void* a, const void* b, void* o)
                                    {
                                        B x = B::load_unaligned((const T*)a);
                                        B m = B::load_unaligned((const T*)b);
                                        B r = xsimd::compress(x, (m & B(T(1))) != B(T(0)));
                                        r.store_unaligned((T*)o);
                                    } });
            out.push_back(FnEntry { "expand", itn<T>::name(), C14_ARCHNAME, 2, L, ES, false,
                                    [](const void* a, const void* b, void* o)
                                    {
                                        B x = B::load_unaligned((const T*)a);
                                        B m = B::load_unaligned((const T*)b);
                                        B r = xsimd::expand(x, (m & B(T(1))) != B(T(0)));
                                        r.store_unaligned((T*)o);
                                    } });
        }

        // integer batches: every public arithmetic/bitwise function; divisors are made non-zero (and not -1) inside the call,
        // shift counts are reduced modulo the element width - the property is about termination, the preconditions stay respected
        template <class T>
        void add_int(std::vector<FnEntry>& out)
        {
            using A = C14_ARCH;
            using B = xsimd::batch<T, A>;
            const int L = (int)B::size;
            const int ES = (int)sizeof(T);
#define IU(NAME)                                                                                       \
    out.push_back(FnEntry { #NAME, itn<T>::name(), C14_ARCHNAME, 1, L, ES, false,                     \
                            [](const void* a, const void*, void* o)                                    \
                            {                                                                          \
                                B x = B::load_unaligned((const T*)a);                                  \
                                B r = xsimd::NAME(x);                                                  \
                                r.store_unaligned((T*)o);                                              \
                            } });
#define IB(NAME)                                                                                       \
    out.push_back(FnEntry { #NAME, itn<T>::name(), C14_ARCHNAME, 2, L, ES, false,                     \
                            [](const void* a, const void* b, void* o)                                  \
                            {                                                                          \
                                B x = B::load_unaligned((const T*)a);                                  \
                                B y = B::load_unaligned((const T*)b);                                  \
                                B r = xsimd::NAME(x, y);                                               \
                                r.store_unaligned((T*)o);                                              \
                            } });
#define IDIV(NAME)                                                                                     \
    out.push_back(FnEntry { #NAME, itn<T>::name(), C14_ARCHNAME, 2, L, ES, false,                     \
                            [](const void* a, const void* b, void* o)                                  \
                            {                                                                          \
                                B x = B::load_unaligned((const T*)a);                                  \
                                B y = B::load_unaligned((const T*)b);                                  \
                                y = xsimd::select(y == B(T(0)), B(T(1)), y);                           \
                                y = xsimd::select(y == B(T(-1)), B(T(3)), y);                          \
                                B r = xsimd::NAME(x, y);                                               \
                                r.store_unaligned((T*)o);                                              \
                            } });
#define ISH(NAME)                                                                                      \
    out.push_back(FnEntry { #NAME, itn<T>::name(), C14_ARCHNAME, 2, L, ES, false,                     \
                            [](const void* a, const void* b, void* o)                                  \
                            {                                                                          \
                                B x = B::load_unaligned((const T*)a);                                  \
                                B y = B::load_unaligned((const T*)b) & B(T(8 * sizeof(T) - 1));        \
                                B r = xsimd::NAME(x, y);                                               \
                                r.store_unaligned((T*)o);                                              \
                            } });                                                                      \
    out.push_back(FnEntry { #NAME "(int)", itn<T>::name(), C14_ARCHNAME, 2, L, ES, false,             \
                            [](const void* a, const void* b, void* o)                                  \
                            {                                                                          \
                                B x = B::load_unaligned((const T*)a);                                  \
                                int n = (int)(*(const unsigned char*)b % (8 * sizeof(T)));             \
                                B r = xsimd::NAME(x, n);                                               \
                                r.store_unaligned((T*)o);                                              \
                            } });
#define IRED(NAME)                                                                                     \
    out.push_back(FnEntry { #NAME, itn<T>::name(), C14_ARCHNAME, 1, L, ES, false,                     \
                            [](const void* a, const void*, void* o)                                    \
                            {                                                                          \
                                B x = B::load_unaligned((const T*)a);                                  \
                                T r = xsimd::NAME(x);                                                  \
                                memcpy(o, &r, sizeof r);                                               \
                            } });
            IU(abs) IU(neg) IU(bitwise_not) IU(sign)
            IB(add) IB(sub) IB(mul) IB(min) IB(max) IB(sadd) IB(ssub) IB(avg) IB(avgr) IB(bitwise_and) IB(bitwise_or) IB(bitwise_xor) IB(bitwise_andnot)
            IDIV(div) IDIV(mod)
            ISH(bitwise_lshift) ISH(bitwise_rshift) ISH(rotl) ISH(rotr)
            IRED(reduce_add) IRED(reduce_max) IRED(reduce_min)
#undef IU
#undef IB
#undef IDIV
#undef ISH
#undef IRED
            add_int_movers<T>(out);
            out.push_back(FnEntry { "ipow", itn<T>::name(), C14_ARCHNAME, 2, L, ES, false,
                                    [](const void* a, const void* b, void* o)
                                    {
                                        B x = B::load_unaligned((const T*)a);
                                        uint32_t e;
                                        memcpy(&e, b, 4);
                                        B r = xsimd::pow(x, (int)(e & 0x7fffffffu)); // a negative exponent would divide by the (possibly zero) power
                                        r.store_unaligned((T*)o);
                                    } });
        }
    }

    namespace
    {
        // the alignment helpers of the memory API are public functions of (pointer value, size, block size) too; the pointer is never dereferenced
        template <class T>
        void add_memory_helpers(std::vector<FnEntry>& out, const char* tname)
        {
            out.push_back(FnEntry { "get_alignment_offset", tname, C14_ARCHNAME, 2, 4, 8, true,
                                    [](const void* a, const void* b, void* o)
                                    {
                                        uint64_t w[4], v[4];
                                        memcpy(w, a, sizeof w);
                                        memcpy(v, b, sizeof v);
                                        const T* p = reinterpret_cast<const T*>((uintptr_t)w[0]);
                                        size_t block = (size_t)1 << (v[0] & 7);
                                        size_t r = xsimd::get_alignment_offset(p, (size_t)w[1], block) + xsimd::get_alignment_offset(p, (size_t)v[1], block);
                                        r += (size_t)xsimd::is_aligned<C14_ARCH>(p);
                                        memcpy(o, &r, sizeof r);
                                    } });
        }
    }

    void C14_FN(std::vector<FnEntry>& out)
    {
        add_memory_helpers<float>(out, "u64/float*");
        add_memory_helpers<double>(out, "u64/double*");
        add_memory_helpers<int16_t>(out, "u64/int16*");
        add_all<float>(out);
        add_all<double>(out);
        add_int<int8_t>(out);
        add_int<uint8_t>(out);
        add_int<int16_t>(out);
        add_int<uint16_t>(out);
        add_int<int32_t>(out);
        add_int<uint32_t>(out);
        add_int<int64_t>(out);
        add_int<uint64_t>(out);
    }
}
