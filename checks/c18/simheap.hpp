// C18: simulated process heap behind posix_memalign/free (+ malloc family), installed with -Wl,--wrap.
// Own mmap arena, exact-alignment placement, address reuse policy, capacity, scripted ENOMEM with
// memptr kept/clobbered, zero-size policy. Metadata lives outside the arena (real heap).
#pragma once
#include <cstddef>
#include <cstdint>
#include <map>
#include <vector>

namespace c18
{
    enum Reuse
    {
        REUSE_LIFO,
        REUSE_FIFO,
        REUSE_NEVER
    };

    struct Block
    {
        uint64_t id;
        uintptr_t base; // absolute address
        size_t size; // bytes requested
        size_t cap; // bytes owned (>= size)
        size_t align; // alignment requested
        bool live;
        uint64_t born_call; // client call counter at creation
        const char* via; // entry point used
    };

    enum EvKind
    {
        EV_ALLOC,
        EV_ALLOC_FAIL_INJECTED,
        EV_ALLOC_FAIL_CAPACITY,
        EV_ALLOC_EINVAL,
        EV_ALLOC_ZERO_NULL,
        EV_FREE,
        EV_FREE_NULL,
        EV_DOUBLE_FREE,
        EV_INVALID_FREE,
        EV_REDZONE_SMASHED
    };

    struct HeapEvent
    {
        EvKind kind;
        uint64_t block; // id or 0
        uint64_t rel; // address relative to arena base
        uint64_t size;
        uint64_t align;
        uint64_t call;
    };

    struct SimHeap
    {
        // ---- knobs (per run) ----
        Reuse reuse = REUSE_LIFO;
        bool exact_align = true;
        bool zero_null = false;
        size_t capacity = 1u << 20;
        unsigned char junk = 0xa5;

        // ---- fault script for the current client call ----
        uint64_t fail_mask = 0; // bit i: the i-th allocation request of this call fails with ENOMEM
        bool clobber_memptr = false; // on failure: leave *memptr untouched (false) or store a wild pointer (true)
        unsigned requests_in_call = 0;
        unsigned injected_fired = 0;
        unsigned capacity_fired = 0;

        // ---- state ----
        uintptr_t arena = 0;
        size_t arena_size = 0;
        bool arena_fixed = false;
        size_t top = 0, top_max = 0;
        size_t live_bytes = 0;
        uint64_t next_id = 1;
        uint64_t call = 0; // bumped by the harness before each client call
        std::map<uintptr_t, Block> blocks; // by base, live and dead (dead ones until their range is reused)
        std::vector<uintptr_t> free_list; // bases of dead blocks available for reuse, in order of death
        std::vector<HeapEvent> events;
        bool in_client = false;

        void init_arena();
        void reset(); // new run: forget everything, give the pages back
        void begin_call(uint64_t mask, bool clobber);
        size_t live_blocks() const;
        const Block* find_containing(uintptr_t p) const;
        bool in_arena(const void* p) const { return (uintptr_t)p >= arena && (uintptr_t)p < arena + arena_size; }

        // entry points used by the wrappers; return 0 / ENOMEM / EINVAL like posix_memalign
        int alloc(void** out, size_t align, size_t size, const char* via, bool validate_posix);
        void release(void* p);
        bool check_redzones(const Block& b) const;
    };

    SimHeap& heap();

    struct ClientScope
    {
        ClientScope() { heap().in_client = true; }
        ~ClientScope() { heap().in_client = false; }
    };
}
