// C18: clients that call the free functions xsimd::aligned_malloc / xsimd::aligned_free directly (byte sizes, no element type).
#include "client.hpp"

#include <xsimd/config/xsimd_config.hpp>
#include <xsimd/config/xsimd_inline.hpp>
#include <xsimd/memory/xsimd_aligned_allocator.hpp>

namespace c18
{
    namespace
    {
        template <size_t Align>
        struct RawClient : ClientBase
        {
            const char* tname() const override { return "bytes(aligned_malloc)"; }
            size_t elem_size() const override { return 1; }
            size_t align() const override { return Align; }
            bool is_default() const override { return false; }
            size_t max_size() const override { return SIZE_MAX; }
            bool reports_failure_by_null() const override { return true; }
            AllocResult allocate(size_t n, int) override
            {
                AllocResult r;
                ClientScope cs;
                r.p = xsimd::aligned_malloc(n, Align);
                return r;
            }
            void deallocate(void* p, size_t) override
            {
                ClientScope cs;
                xsimd::aligned_free(p);
            }
            void deallocate_rebound(void* p, size_t n) override { deallocate(p, n); }
            void compare(int other_align_idx, bool, bool& eq, bool& ne) const override
            {
                // no allocator object here: answer what the relation demands so the clause is neutral for these clients
                eq = Align == (size_t(1) << (3 + other_align_idx));
                ne = !eq;
            }
            void vec_reset() override {}
            VecOutcome vec_step(VecStep, size_t) override { return VecOutcome(); }
            void vec_destroy() override {}
            size_t vec_live_bytes() const override { return 0; }
            LoadStoreOutcome load_store(void*, size_t) override { return LoadStoreOutcome(); }
            PredOutcome predicates(const void*) const override { return PredOutcome(); }
        };
    }
    void make_clients_raw(std::vector<ClientBase*>& out)
    {
        out.push_back(new RawClient<8>());
        out.push_back(new RawClient<16>());
        out.push_back(new RawClient<32>());
        out.push_back(new RawClient<64>());
        out.push_back(new RawClient<256>());
        out.push_back(new RawClient<4096>());
    }
}
