// C18 harness: aligned_allocator over a simulated, failing heap (DESIGN.md 6.2).
// Real code: every member of aligned_allocator<T,Align>, aligned_malloc/free, operator==/!=, is_aligned,
// get_alignment_offset, default allocator + batch load/store, libstdc++ vector/allocator_traits on top.
// Stub: the C heap (SimHeap, link-time wrapped posix_memalign/free/malloc family).
#include "client.hpp"

#include "../../sim/core.hpp"

#include <cstring>
#include <stdexcept>

using namespace c18;
using sim::Counter;
using sim::json::Value;

namespace c18
{
    std::string default_alignment_problem();
    std::string eq_matrix_problem();
}

namespace
{
    enum OpKind
    {
        OP_ALLOCATE,
        OP_DEALLOCATE,
        OP_WRITE_ALL,
        OP_VERIFY,
        OP_COPY_REBIND,
        OP_COMPARE,
        OP_VECTOR,
        OP_LOAD_STORE,
        OP_PREDICATES,
        N_OPKIND
    };
    const char* OPNAME[N_OPKIND] = { "allocate", "deallocate", "write_all", "verify", "copy_rebind", "compare", "vector", "load_store_default", "predicates" };
    const char* VSNAME[N_VECSTEP] = { "push", "reserve", "shrink", "move", "swap", "clear", "copy", "resize" };
    const char* REUSENAME[3] = { "lifo", "fifo", "never" };

    struct Setup
    {
        int reuse = 0;
        bool exact_align = true;
        bool zero_null = false;
        uint64_t capacity = 1u << 20;
        unsigned junk = 0xa5;
        double fail_rate = 0; // informational: the faults themselves are attached to the ops
        int new_handler = 0; // process-wide std::new_handler during the run: 0 none, 1 returns on its first call per op then throws bad_alloc, 2 throws bad_alloc
    };
    const char* VIANAME[4] = { "a.allocate(n)", "a.allocate(n, hint)", "allocator_traits::allocate(a, n)", "allocator_traits::allocate(a, n, hint)" };
    const char* NHNAME[3] = { "none", "returns_once_then_throws", "throws" };

    // the simulated application's new_handler (ambient process state an allocator may consult, like operator new does)
    int g_nh_mode = 0;
    unsigned g_nh_calls_in_op = 0;
    uint64_t g_nh_calls = 0;
    void sim_new_handler()
    {
        ++g_nh_calls;
        if (g_nh_mode == 1 && g_nh_calls_in_op++ == 0)
            return; // "I released what I could, try again"
        throw std::bad_alloc();
    }

    struct Op
    {
        OpKind kind = OP_ALLOCATE;
        uint32_t client = 0;
        uint32_t slot = 0;
        // allocate
        uint64_t n = 0;
        int via = 0; // which public entry point asks: allocate(n) | allocate(n, hint) | allocator_traits::allocate(a, n) | (a, n, hint)
        std::string n_family;
        std::string fault; // "" | enomem_coin | enomem_after_k
        bool clobber = false;
        // compare
        uint32_t other_align_idx = 0;
        bool other_double = false;
        // vector
        int step = 0;
        uint64_t arg = 0;
        uint64_t fail_mask = 0;
        // predicates / load_store
        uint32_t byte_off = 0;
    };

    struct Plan
    {
        Setup setup;
        std::vector<Op> ops;
    };

    struct Slot
    {
        void* p;
        uint64_t n;
        uint64_t block_id;
        uint64_t pattern;
        bool written;
    };

    Counter c_runs("sim", "heap_lifetimes"), c_heap_ops("sim", "heap_requests"), c_client_calls("sim", "client_calls");
    Counter fc_coin("fault_configured", "enomem_coin"), fc_afterk("fault_configured", "enomem_after_k"), fc_clobber("fault_configured", "memptr_clobbered_on_failure"),
        fc_huge("fault_configured", "huge_request"), fc_overflow("fault_configured", "overflow_request"), fc_zero("fault_configured", "zero_size_request"),
        fc_vecfail("fault_configured", "enomem_inside_vector_op"), fc_capacity("fault_configured", "small_capacity_heap"),
        fc_persist("fault_configured", "enomem_persistent(every_request_of_the_op)"), fc_twice("fault_configured", "enomem_twice_in_a_row"), fc_nh("fault_configured", "new_handler_installed");
    Counter ff_injected("fault_fired", "enomem_injected"), ff_capacity("fault_fired", "enomem_capacity"), ff_clobber("fault_fired", "memptr_clobbered_on_failure"),
        ff_overflow("fault_fired", "overflow_request"), ff_zero_null("fault_fired", "zero_size_returned_null"), ff_zero_unique("fault_fired", "zero_size_returned_unique"),
        ff_vecfail("fault_fired", "enomem_inside_vector_op"), ff_reuse("fault_fired", "address_reused_immediately"),
        ff_multi("info", "enomem_more_than_once_in_one_op(only_if_the_allocator_retries)"), ff_nh("info", "new_handler_invoked(only_if_the_allocator_consults_it)");
    Counter cl_alloc_ok("clause", "allocate_returned(aligned,in_live_block,no_overlap)"), cl_alloc_throw("clause", "allocate_threw(bad_alloc,nothing_leaked)"),
        cl_overflow("clause", "unrepresentable_size_must_throw"), cl_dealloc("clause", "deallocate(exactly_one_block_died)"), cl_verify("clause", "verify_pattern_intact"),
        cl_conserve("clause", "conservation_after_op"), cl_end("clause", "end_of_history(no_live_block,no_bad_free)"), cl_eq("clause", "operator==_iff_alignments_equal"),
        cl_vec("clause", "vector_step_audit"), cl_pred("clause", "predicate_evaluations(is_aligned,get_alignment_offset)"), cl_ls("clause", "default_allocator_load_store_aligned"),
        cl_dflt("clause", "default_alignment_static"), cl_pred_fresh("clause", "is_aligned_asked_directly_on_allocate's_result");
    Counter p_spurious("info", "spurious_failure_without_heap_refusal"), p_fail_while_live("probe", "failure_fired_while_other_block_live"),
        p_vec_growth_fail("probe", "allocation_failed_inside_vector_growth"), p_stale_alias("probe", "new_block_reused_a_freed_address"),
        p_exact("probe", "block_aligned_to_Align_but_not_2Align"), p_big_align("probe", "allocation_with_Align_ge_1024"), p_faultfree("probe", "fault_free_runs"),
        p_skipped("probe", "ops_skipped_no_live_slot"), p_rebind("probe", "deallocate_through_rebound_copy");

    sim::DistinctSet d_states("heap_states"), d_nontrivial("plans_with_failure_while_block_live");

    uint64_t size_class(uint64_t s)
    {
        uint64_t c = 0;
        while (s > 1)
        {
            s >>= 1;
            ++c;
        }
        return c;
    }

    struct C18Harness : sim::HarnessBase
    {
        using Plan = ::Plan;
        static const char* id() { return "C18"; }
        std::vector<ClientBase*> clients;
        std::vector<size_t> default_clients;
        uint64_t max_ops = 60;
        bool real_heap = false; // stub-validation configuration: same plans, glibc heap (under ASan/valgrind)

        C18Harness()
        {
            make_clients_char(clients);
            make_clients_i16(clients);
            make_clients_float(clients);
            make_clients_double(clients);
            make_clients_cdouble(clients);
            make_clients_pod24(clients);
            make_clients_pod4096(clients);
            make_clients_over32(clients);
            make_clients_over64(clients);
            make_clients_raw(clients);
            size_t before = clients.size();
            make_clients_default(clients);
            for (size_t i = before; i < clients.size(); ++i)
                default_clients.push_back(i);
        }
        // a run is one heap lifetime, i.e. one process lifetime of the simulated application: allocator-level state that the code under test
        // might keep between calls (a cache of freed blocks, say) must start empty, so candidates are confirmed/shrunk/observed in pristine processes
        bool pristine_confirmation() const { return !real_heap; }
        ~C18Harness()
        {
            for (ClientBase* c : clients)
                delete c; // keeps LeakSanitizer's report (real-heap configuration) limited to blocks the allocator under test lost
        }
        void configure(const sim::Params& p)
        {
            max_ops = p.u64("max_ops", 60);
            real_heap = p.u64("real_heap", 0) != 0;
        }
        void startup_selftest()
        {
            // the wrappers must actually be in the path: an allocation in client scope has to land in the arena
            if (real_heap)
                return;
            SimHeap& h = heap();
            h.reset();
            h.capacity = 1 << 20;
            // the seam itself is exercised here (posix_memalign/free called from harness code in client scope), never
            // through the allocator under test: a broken allocator must surface as a violation, not as a self-test failure
            h.begin_call(0, false);
            void* p = nullptr;
            int rc;
            {
                ClientScope cs;
                rc = posix_memalign(&p, 64, 10);
            }
            if (rc != 0 || !p || !h.in_arena(p) || h.live_blocks() != 1)
                throw std::runtime_error("C18 self-test: posix_memalign did not go through the simulated heap (link-time wrap missing?)");
            {
                ClientScope cs;
                free(p);
            }
            if (h.live_blocks() != 0)
                throw std::runtime_error("C18 self-test: free did not reach the simulated heap");
            // injected failure must surface
            h.begin_call(1, true);
            {
                ClientScope cs;
                rc = posix_memalign(&p, 64, 10);
            }
            if (rc == 0 || h.injected_fired != 1)
                throw std::runtime_error("C18 self-test: injected ENOMEM did not fire");
            h.reset();
        }

        // ------------------------------------------------------------------ generation
        uint64_t gen_n(sim::Rng& rng, const ClientBase& c, const Setup& s, std::string& family)
        {
            const uint64_t es = c.elem_size();
            const uint64_t maxn = SIZE_MAX / es;
            switch (rng.below(16))
            {
            case 0:
            case 1:
            case 2:
            case 3:
            case 4:
                family = "small";
                return rng.below(18);
            case 5:
            case 6:
            case 7:
            {
                family = "pow2+-1";
                uint64_t k = rng.below(21);
                return ((uint64_t)1 << k) + (uint64_t)rng.range(-1, 1);
            }
            case 8:
            case 9:
                family = "near-capacity";
                return (uint64_t)std::max<int64_t>(0, (int64_t)(s.capacity / es) + rng.range(-3, 3));
            case 10:
                family = "zero";
                ++fc_zero;
                return 0;
            case 11:
            case 12:
                family = "huge(representable)";
                ++fc_huge;
                return maxn - rng.below(3);
            case 13:
            case 14:
                family = "overflow(unrepresentable)";
                ++fc_overflow;
                if (es == 1)
                    return SIZE_MAX; // every n is representable for 1-byte elements
                return rng.coin() ? maxn + 1 + rng.below(3) : (rng.coin() ? SIZE_MAX - rng.below(3) : ((uint64_t)1 << 63) / es * 2 + rng.below(es));
            default:
                if (s.capacity >= ((uint64_t)1 << 32) && rng.coin())
                {
                    // single requests around the 32-bit boundaries of the byte count (only heaps that can grant them get them)
                    family = "gigabytes";
                    static const uint64_t B[] = { (uint64_t)1 << 31, ((uint64_t)1 << 32) - (2u << 20), (uint64_t)1 << 32, ((uint64_t)1 << 32) + 64, (uint64_t)6 << 30, (uint64_t)1 << 33 };
                    uint64_t bytes = B[rng.below(6)] + (uint64_t)rng.range(-4096, 4096);
                    return bytes / es + (rng.coin() ? 1 : 0);
                }
                family = "medium";
                return rng.below(5000);
            }
        }

        Plan generate(sim::Rng& rng)
        {
            Plan plan;
            Setup& s = plan.setup;
            s.reuse = (int)rng.below(3);
            s.exact_align = rng.chance(3, 4);
            s.zero_null = rng.coin();
            s.capacity = rng.pick<uint64_t>({ 64u << 10, 256u << 10, 1u << 20, 4u << 20, 64u << 20, 64u << 20, (uint64_t)9 << 30, (uint64_t)48 << 30 });
            if (s.capacity <= (256u << 10))
                ++fc_capacity;
            s.junk = (unsigned)rng.pick<unsigned>({ 0x00, 0xa5, 0xff, 0xcd });
            s.fail_rate = rng.pick<double>({ 0.0, 0.0, 0.01, 0.1, 0.5 });
            s.new_handler = rng.chance(1, 4) ? 1 + (int)rng.below(2) : 0;
            if (s.new_handler)
                ++fc_nh;
            int64_t after_k = rng.chance(1, 3) && s.fail_rate > 0 ? (int64_t)rng.below(12) : -1;
            // a run works with a small number of clients so that interleavings between them are dense
            unsigned n_clients = 1 + (unsigned)rng.below(4);
            std::vector<uint32_t> cl;
            for (unsigned i = 0; i < n_clients; ++i)
                cl.push_back(rng.chance(1, 5) ? (uint32_t)default_clients[rng.below(default_clients.size())] : (uint32_t)rng.below(clients.size()));
            unsigned w_alloc = 3 + (unsigned)rng.below(6), w_dealloc = 1 + (unsigned)rng.below(6), w_write = (unsigned)rng.below(4), w_verify = (unsigned)rng.below(4),
                     w_rebind = (unsigned)rng.below(3), w_cmp = (unsigned)rng.below(2), w_vec = (unsigned)rng.below(6), w_ls = (unsigned)rng.below(3), w_pred = (unsigned)rng.below(2);
            uint64_t n_ops = 1 + rng.below(max_ops);
            int64_t alloc_index = 0;
            while (plan.ops.size() < n_ops)
            {
                Op op;
                op.client = cl[rng.below(cl.size())];
                ClientBase& c = *clients[op.client];
                unsigned tot = w_alloc + w_dealloc + w_write + w_verify + w_rebind + w_cmp + w_vec + w_ls + w_pred;
                unsigned x = (unsigned)rng.below(tot);
                if (x < w_alloc)
                {
                    op.kind = OP_ALLOCATE;
                    op.n = gen_n(rng, c, s, op.n_family);
                    op.via = rng.chance(1, 2) ? 0 : 1 + (int)rng.below(3);
                    if (alloc_index++ == after_k)
                    {
                        op.fault = "enomem_after_k";
                        ++fc_afterk;
                    }
                    else if (rng.bernoulli(s.fail_rate))
                    {
                        op.fault = "enomem_coin";
                        ++fc_coin;
                    }
                    op.clobber = rng.coin();
                    if (!op.fault.empty() && op.clobber)
                        ++fc_clobber;
                    if (!op.fault.empty())
                    {
                        // transient (first request only), twice in a row, or persistent for the whole op (matters to implementations that retry)
                        op.fail_mask = rng.pick<uint64_t>({ 1, 1, 3, ~0ull });
                        if (op.fail_mask == 3)
                            ++fc_twice;
                        if (op.fail_mask == ~0ull)
                            ++fc_persist;
                    }
                }
                else if ((x -= w_alloc) < w_dealloc)
                {
                    op.kind = OP_DEALLOCATE;
                    op.slot = rng.next32();
                }
                else if ((x -= w_dealloc) < w_write)
                {
                    op.kind = OP_WRITE_ALL;
                    op.slot = rng.next32();
                }
                else if ((x -= w_write) < w_verify)
                {
                    op.kind = OP_VERIFY;
                    op.slot = rng.next32();
                }
                else if ((x -= w_verify) < w_rebind)
                {
                    op.kind = OP_COPY_REBIND;
                    op.slot = rng.next32();
                }
                else if ((x -= w_rebind) < w_cmp)
                {
                    op.kind = OP_COMPARE;
                    op.other_align_idx = (uint32_t)rng.below(10);
                    op.other_double = rng.coin();
                }
                else if ((x -= w_cmp) < w_vec)
                {
                    op.kind = OP_VECTOR;
                    op.step = (int)rng.below(N_VECSTEP);
                    op.arg = op.step == VS_PUSH ? 1 + rng.below(40) : rng.below(70);
                    for (int b = 0; b < 8; ++b)
                        if (rng.bernoulli(s.fail_rate))
                            op.fail_mask |= 1ull << b;
                    if (s.fail_rate > 0 && rng.chance(1, 6))
                        op.fail_mask |= 1ull << rng.below(4);
                    op.clobber = rng.coin();
                    if (op.fail_mask)
                        ++fc_vecfail;
                }
                else if ((x -= w_vec) < w_ls)
                {
                    op.kind = OP_LOAD_STORE;
                    op.client = (uint32_t)default_clients[rng.below(default_clients.size())];
                    op.slot = rng.next32();
                }
                else
                {
                    op.kind = OP_PREDICATES;
                    op.client = (uint32_t)default_clients[rng.below(default_clients.size())];
                    op.slot = rng.next32();
                    op.byte_off = (uint32_t)rng.below(4096);
                }
                plan.ops.push_back(op);
            }
            return plan;
        }

        // ------------------------------------------------------------------ execution + oracle
        struct RunState
        {
            std::vector<std::vector<Slot>> slots; // per client
            std::vector<bool> vec_used;
            size_t events_seen = 0;
            uint64_t pattern_counter = 1;
            bool failure_while_live = false;
        };

        static unsigned char pat(uint64_t id, uint64_t i) { return (unsigned char)((id * 131 + i * 7 + (i >> 8)) & 0xff); }

        void scan_events(RunState& rs, sim::Outcome& out)
        {
            SimHeap& h = heap();
            for (; rs.events_seen < h.events.size(); ++rs.events_seen)
            {
                const HeapEvent& e = h.events[rs.events_seen];
                ++c_heap_ops;
                switch (e.kind)
                {
                case EV_DOUBLE_FREE:
                    out.violate("C18/double-free", sim::fmt("block #%llu at +0x%llx freed twice (client call %llu)", (unsigned long long)e.block, (unsigned long long)e.rel, (unsigned long long)e.call));
                    break;
                case EV_INVALID_FREE:
                    out.violate("C18/invalid-free", sim::fmt("free() of +0x%llx which is not the base of any block (client call %llu)", (unsigned long long)e.rel, (unsigned long long)e.call));
                    break;
                case EV_REDZONE_SMASHED:
                    out.violate("C18/corrupted-block", sim::fmt("bytes outside block #%llu were modified before it was freed", (unsigned long long)e.block));
                    break;
                case EV_ALLOC_EINVAL:
                    out.violate("C18/heap-contract(EINVAL)", sim::fmt("a heap function was called outside its contract: alignment %llu, size %llu (posix_memalign needs a power-of-two multiple of sizeof(void*); aligned_alloc needs size to be a multiple of the alignment)",
                                                                      (unsigned long long)e.align, (unsigned long long)e.size));
                    break;
                case EV_ALLOC_FAIL_INJECTED:
                    ++ff_injected;
                    break;
                case EV_ALLOC_FAIL_CAPACITY:
                    ++ff_capacity;
                    break;
                case EV_ALLOC_ZERO_NULL:
                    ++ff_zero_null;
                    break;
                default:
                    break;
                }
            }
        }

        size_t expected_live(const RunState& rs) const
        {
            size_t n = 0;
            for (auto& v : rs.slots)
                for (auto& s : v)
                    n += (s.block_id != 0);
            for (size_t c = 0; c < clients.size(); ++c)
                if (rs.vec_used[c])
                    n += clients[c]->vec_live_bytes();
            return n;
        }

        void state_hash(const RunState& rs, const Op& op, unsigned fired)
        {
            uint64_t hsh = 0x1234;
            SimHeap& h = heap();
            // multiset of live (align, size-class) blocks: order-independent sum of hashes
            uint64_t acc = 0;
            for (auto& kv : h.blocks)
                if (kv.second.live)
                    acc += sim::hash_u64(kv.second.align, size_class(kv.second.size));
            hsh = sim::hash_u64(sim::hash_u64(acc, (uint64_t)op.kind), fired);
            d_states.add(hsh);
            (void)rs;
        }

        sim::Outcome execute(const Plan& plan, sim::Log& log)
        {
            sim::Outcome out;
            if (real_heap)
                return execute_real(plan, log);
            SimHeap& h = heap();
            h.reset();
            h.reuse = (Reuse)plan.setup.reuse;
            h.exact_align = plan.setup.exact_align;
            h.zero_null = plan.setup.zero_null;
            h.capacity = plan.setup.capacity;
            h.junk = (unsigned char)plan.setup.junk;
            ++c_runs;
            RunState rs;
            rs.slots.resize(clients.size());
            rs.vec_used.assign(clients.size(), false);
            bool any_fault = false;
            {
                ++cl_dflt;
                std::string dp = default_alignment_problem();
                if (!dp.empty())
                    out.violate("C18/" + dp.substr(0, dp.find(':')), dp);
                static const std::string eqp = eq_matrix_problem(); // pure compile-time matrix: evaluated once per process
                ++cl_eq;
                if (!eqp.empty())
                    out.violate("C18/" + eqp.substr(0, eqp.find(':')), eqp);
            }
            log.rec("setup", (uint64_t)plan.setup.reuse, plan.setup.exact_align, plan.setup.zero_null, plan.setup.capacity);
            g_nh_mode = plan.setup.new_handler;
            g_nh_calls = 0;
            struct HandlerGuard
            {
                std::new_handler old;
                explicit HandlerGuard(int mode)
                    : old(std::set_new_handler(mode ? sim_new_handler : nullptr))
                {
                }
                ~HandlerGuard() { std::set_new_handler(old); }
            } handler_guard(plan.setup.new_handler);

            for (const Op& op : plan.ops)
            {
                ++out.ops_executed;
                g_nh_calls_in_op = 0;
                const uint64_t nh_before = g_nh_calls;
                struct NhNote
                {
                    sim::Log& log;
                    uint64_t before;
                    ~NhNote()
                    {
                        if (g_nh_calls != before)
                        {
                            ++ff_nh;
                            log.rec("new_handler", g_nh_calls - before);
                        }
                    }
                } nh_note { log, nh_before };
                ClientBase& c = *clients[op.client % clients.size()];
                std::vector<Slot>& slots = rs.slots[op.client % clients.size()];
                unsigned fired_kind = 0;
                const uint64_t es = c.elem_size();
                switch (op.kind)
                {
                case OP_ALLOCATE:
                {
                    ++c_client_calls;
                    uint64_t id_before = h.next_id;
                    size_t live_before = h.live_blocks();
                    bool others_live = live_before > 0;
                    h.begin_call(op.fault.empty() ? 0 : (op.fail_mask ? op.fail_mask : 1), op.clobber);
                    AllocResult r = c.allocate((size_t)op.n, op.via);
                    unsigned __int128 bytes = (unsigned __int128)op.n * es;
                    bool representable = bytes <= (unsigned __int128)SIZE_MAX;
                    bool heap_refused = (h.injected_fired + h.capacity_fired) > 0;
                    if (h.injected_fired + h.capacity_fired > 1)
                        ++ff_multi;
                    if (h.injected_fired)
                    {
                        any_fault = true;
                        fired_kind = 1;
                        if (op.clobber)
                            ++ff_clobber;
                    }
                    else if (h.capacity_fired)
                    {
                        any_fault = true;
                        fired_kind = 2;
                    }
                    if (heap_refused && others_live)
                    {
                        ++p_fail_while_live;
                        rs.failure_while_live = true;
                    }
                    if (!representable)
                        ++ff_overflow;
                    if (c.align() >= 1024)
                        ++p_big_align;
                    uint64_t rel = r.p && h.in_arena(r.p) ? (uint64_t)((uintptr_t)r.p - h.arena) : (r.p ? ~0ull : 0);
                    log.rec("allocate", op.client % clients.size(), op.n, rel, (uint64_t)r.threw | ((uint64_t)r.bad_alloc << 1));
                    if (r.threw)
                    {
                        ++cl_alloc_throw;
                        if (!r.bad_alloc)
                            out.violate("C18/wrong-exception", "allocate reported failure with an exception that is not std::bad_alloc");
                        if (h.live_blocks() != live_before)
                            out.violate("C18/leak", sim::fmt("allocate(%llu) threw but the heap's live set changed (%zu -> %zu blocks)", (unsigned long long)op.n, live_before, h.live_blocks()));
                        if (!heap_refused && representable && op.n > 0)
                            ++p_spurious;
                        if (!heap_refused && op.n > 0 && bytes <= ((unsigned __int128)1 << 32))
                        {
                            // the heap never said no to an ordinary-size request (<= 4 GiB): failure invented by the allocator. Flagged because the
                            // property only allows reporting a failure, not manufacturing one. Above 4 GiB an implementation may legitimately refuse
                            // without asking the heap (max_size() / PTRDIFF_MAX caps), so those throws are only counted.
                            bool einval = false;
                            for (size_t k = rs.events_seen; k < h.events.size(); ++k)
                                einval |= h.events[k].kind == EV_ALLOC_EINVAL;
                            if (!einval)
                                out.violate("C18/spurious-failure", sim::fmt("allocate(%llu) of %llu-byte elements threw although the heap refused nothing", (unsigned long long)op.n, (unsigned long long)es));
                        }
                        break;
                    }
                    if (!representable)
                    {
                        ++cl_overflow;
                        out.violate("C18/small-block-on-overflow",
                                    sim::fmt("allocate(%llu) with sizeof(T)=%llu: n*sizeof(T) is not representable, yet a pointer was returned instead of std::bad_alloc", (unsigned long long)op.n,
                                             (unsigned long long)es));
                        // the block it got is tiny: release it through the heap directly so the run can go on
                        if (r.p && h.in_arena(r.p))
                        {
                            ClientScope cs;
                            free(r.p);
                        }
                        break;
                    }
                    if (r.p == nullptr)
                    {
                        if (op.n == 0)
                        {
                            // n = 0: a null result is acceptable
                            break;
                        }
                        if (c.reports_failure_by_null())
                        {
                            // aligned_malloc's way of reporting failure: judged like a thrown bad_alloc
                            ++cl_alloc_throw;
                            if (h.live_blocks() != live_before)
                                out.violate("C18/leak", sim::fmt("aligned_malloc(%llu, %zu) returned nullptr but the heap's live set changed (%zu -> %zu blocks)", (unsigned long long)op.n, c.align(),
                                                                 live_before, h.live_blocks()));
                            if (!heap_refused && bytes <= ((unsigned __int128)1 << 32))
                                out.violate("C18/spurious-failure", sim::fmt("aligned_malloc(%llu, %zu) returned nullptr although the heap refused nothing", (unsigned long long)op.n, c.align()));
                            break;
                        }
                        out.violate("C18/no-throw-on-failure", sim::fmt("allocate(%llu) returned nullptr without throwing std::bad_alloc", (unsigned long long)op.n));
                        break;
                    }
                    if (heap_refused && h.live_blocks() == live_before)
                    {
                        out.violate("C18/no-throw-on-failure", sim::fmt("the heap refused the request of allocate(%llu) but a non-null pointer %p was returned", (unsigned long long)op.n, r.p));
                        break;
                    }
                    ++cl_alloc_ok;
                    if (op.n == 0)
                        ++ff_zero_unique;
                    if (r.is_aligned_seen >= 0)
                    {
                        // the harness reads the address through a virtual call in another translation unit: nothing the allocator promised the optimizer reaches here
                        int truth = ((uintptr_t)r.p % 16 == 0 ? 1 : 0) | ((uintptr_t)r.p % 32 == 0 ? 2 : 0) | ((uintptr_t)r.p % 64 == 0 ? 4 : 0);
                        ++cl_pred_fresh;
                        if (truth != r.is_aligned_seen)
                            out.violate("C18/is_aligned", sim::fmt("is_aligned<sse2|avx|avx512f> asked on the pointer allocate(%llu) of aligned_allocator<%s,%zu> had just returned answered %d%d%d, the address +0x%llx says %d%d%d",
                                                                   (unsigned long long)op.n, c.tname(), c.align(), r.is_aligned_seen & 1, (r.is_aligned_seen >> 1) & 1, (r.is_aligned_seen >> 2) & 1,
                                                                   (unsigned long long)rel, truth & 1, (truth >> 1) & 1, (truth >> 2) & 1));
                    }
                    if (r.offset_seen >= 0)
                    {
                        const uint64_t esz = es, block_bytes = 64;
                        long want = 64;
                        for (long k = 0; k <= 64; ++k)
                            if (((uintptr_t)r.p + (uint64_t)k * esz) % block_bytes == 0)
                            {
                                want = k;
                                break;
                            }
                        if (want != r.offset_seen)
                            out.violate("C18/alignment-offset", sim::fmt("get_alignment_offset(p, 64, %llu) asked on the pointer allocate(%llu) of aligned_allocator<%s,%zu> had just returned answered %ld, the address +0x%llx says %ld",
                                                                         (unsigned long long)(64 / esz), (unsigned long long)op.n, c.tname(), c.align(), r.offset_seen, (unsigned long long)rel, want));
                    }
                    if ((uintptr_t)r.p % c.align())
                        out.violate("C18/misaligned", sim::fmt("allocate(%llu) returned +0x%llx which is not a multiple of Align=%zu", (unsigned long long)op.n, (unsigned long long)rel, c.align()));
                    else if (((uintptr_t)r.p % (2 * c.align())) != 0)
                        ++p_exact;
                    const Block* b = h.in_arena(r.p) ? h.find_containing((uintptr_t)r.p) : nullptr;
                    if (!b || !b->live || b->id < id_before || (unsigned __int128)((uintptr_t)r.p - b->base) + bytes > b->size)
                    {
                        out.violate("C18/range-not-in-live-block",
                                    sim::fmt("allocate(%llu): [p, p+%llu) is not inside one live heap block created by this call (block %s, size %llu)", (unsigned long long)op.n,
                                             (unsigned long long)(uint64_t)bytes, b ? "found" : "none", (unsigned long long)(b ? b->size : 0)));
                        // keep the pointer releasable if it is a real block base
                        if (b && b->live && b->base == (uintptr_t)r.p)
                            slots.push_back(Slot { r.p, 0, b->id, 0, false });
                        break;
                    }
                    for (auto& v : rs.slots)
                        for (auto& s : v)
                            if (s.block_id == b->id)
                                out.violate("C18/overlap", "allocate returned storage that overlaps a block still owned by another slot");
                    if (h.free_list.size() + 1 <= h.blocks.size() && b->born_call == h.call && h.reuse != REUSE_NEVER)
                    {
                        // was this address handed out before?
                        for (size_t k = 0; k + 1 < h.events.size(); ++k)
                            if (h.events[k].kind == EV_FREE && h.events[k].rel == (uint64_t)(b->base - h.arena))
                            {
                                ++p_stale_alias;
                                ++ff_reuse;
                                break;
                            }
                    }
                    slots.push_back(Slot { r.p, op.n, b->id, 0, false });
                    break;
                }
                case OP_DEALLOCATE:
                case OP_COPY_REBIND:
                {
                    if (slots.empty())
                    {
                        ++p_skipped;
                        break;
                    }
                    size_t si = op.slot % slots.size();
                    Slot s = slots[si];
                    slots.erase(slots.begin() + (long)si);
                    release_slot(c, s, op.kind == OP_COPY_REBIND, out, log);
                    break;
                }
                case OP_WRITE_ALL:
                {
                    if (slots.empty())
                    {
                        ++p_skipped;
                        break;
                    }
                    Slot& s = slots[op.slot % slots.size()];
                    s.pattern = rs.pattern_counter++;
                    s.written = true;
                    uint64_t bytes = s.n * es;
                    unsigned char* p = (unsigned char*)s.p;
                    if (bytes <= (1u << 20))
                        for (uint64_t i = 0; i < bytes; ++i)
                            p[i] = pat(s.pattern, i);
                    else
                        for (uint64_t i = 0; i < 4096; ++i)
                        {
                            p[i] = pat(s.pattern, i);
                            p[bytes - 1 - i] = pat(s.pattern, bytes - 1 - i);
                        }
                    log.rec("write_all", op.client % clients.size(), bytes);
                    break;
                }
                case OP_VERIFY:
                {
                    if (slots.empty())
                    {
                        ++p_skipped;
                        break;
                    }
                    Slot& s = slots[op.slot % slots.size()];
                    verify_slot(s, es, out);
                    log.rec("verify", op.client % clients.size(), s.n);
                    break;
                }
                case OP_COMPARE:
                {
                    ++cl_eq;
                    bool eq = false, ne = false;
                    c.compare((int)op.other_align_idx % 10, op.other_double, eq, ne);
                    bool want = c.align() == ((size_t)1 << (3 + op.other_align_idx % 10));
                    log.rec("compare", c.align(), op.other_align_idx % 10, eq, ne);
                    if (eq != want || ne == want)
                        out.violate("C18/eq-relation", sim::fmt("aligned_allocator<%s,%zu> vs <%s,%zu>: operator== gave %d, operator!= gave %d", c.tname(), c.align(), op.other_double ? "double" : "char",
                                                                (size_t)1 << (3 + op.other_align_idx % 10), (int)eq, (int)ne));
                    break;
                }
                case OP_VECTOR:
                {
                    ++c_client_calls;
                    size_t ci = op.client % clients.size();
                    if (!rs.vec_used[ci])
                    {
                        c.vec_reset();
                        rs.vec_used[ci] = true;
                    }
                    bool others_live = h.live_blocks() > 0;
                    h.begin_call(op.fail_mask, op.clobber);
                    VecOutcome vo = c.vec_step((VecStep)(op.step % N_VECSTEP), (size_t)op.arg);
                    ++cl_vec;
                    if (h.injected_fired || h.capacity_fired)
                    {
                        any_fault = true;
                        fired_kind = 3;
                        ++p_vec_growth_fail;
                        if (h.injected_fired)
                            ++ff_vecfail;
                        if (others_live)
                        {
                            ++p_fail_while_live;
                            rs.failure_while_live = true;
                        }
                    }
                    log.rec("vector", ci, (uint64_t)op.step % N_VECSTEP, op.arg, (uint64_t)vo.threw | ((uint64_t)vo.bad_alloc << 1));
                    if (vo.threw && !vo.bad_alloc)
                        out.violate("C18/wrong-exception", "a vector operation failed with an exception that is not std::bad_alloc");
                    if (vo.threw && !(h.injected_fired || h.capacity_fired))
                    {
                        ++p_spurious;
                        out.violate("C18/spurious-failure", sim::fmt("vector %s threw although the heap refused nothing", VSNAME[op.step % N_VECSTEP]));
                    }
                    if (!vo.threw && h.injected_fired && op.step % N_VECSTEP != VS_SHRINK && op.step % N_VECSTEP != VS_CLEAR)
                    {
                        // the op consumed an injected failure and still completed: only legal if it swallowed the failure, which
                        // only the non-binding shrink_to_fit does (libstdc++ catches inside it)
                        out.violate("C18/no-throw-on-failure", sim::fmt("vector %s completed although an allocation inside it was refused", VSNAME[op.step % N_VECSTEP]));
                    }
                    if (!vo.problem.empty())
                        out.violate("C18/" + vo.problem.substr(0, vo.problem.find(':')), sim::fmt("vector<%s,aligned_allocator<..,%zu>> %s(%llu): %s", c.tname(), c.align(),
                                                                                                  VSNAME[op.step % N_VECSTEP], (unsigned long long)op.arg, vo.problem.c_str()));
                    break;
                }
                case OP_LOAD_STORE:
                {
                    if (slots.empty())
                    {
                        ++p_skipped;
                        break;
                    }
                    Slot& s = slots[op.slot % slots.size()];
                    if (s.n * es > (1u << 20) || s.n == 0)
                        break;
                    LoadStoreOutcome lo = c.load_store(s.p, (size_t)s.n);
                    if (!lo.supported)
                        break;
                    ++cl_ls;
                    log.rec("load_store", op.client % clients.size(), s.n, lo.batches, (uint64_t)lo.fault | ((uint64_t)lo.changed << 1));
                    if (lo.fault)
                        out.violate("C18/default-align", sim::fmt("load_aligned/store_aligned of the default architecture faulted on a block of aligned_allocator<%s> (alignment %zu)", c.tname(), c.align()));
                    else if (lo.changed)
                        out.violate("C18/corrupted-block", "load_aligned + store_aligned round trip changed the block's bytes");
                    const Block* b = h.find_containing((uintptr_t)s.p);
                    if (b && !h.check_redzones(*b))
                        out.violate("C18/corrupted-block", "aligned load/store on a default-allocator block modified bytes outside the block");
                    break;
                }
                case OP_PREDICATES:
                {
                    const void* q;
                    if (slots.empty())
                        q = (const void*)(h.arena + 4096 + op.byte_off);
                    else
                        q = (const char*)slots[op.slot % slots.size()].p + op.byte_off % 256;
                    PredOutcome po = c.predicates(q);
                    cl_pred += po.evaluated;
                    log.rec("predicates", (uint64_t)((uintptr_t)q - h.arena), po.evaluated, po.problem.empty());
                    if (!po.problem.empty())
                        out.violate("C18/" + po.problem.substr(0, po.problem.find(':')), po.problem);
                    break;
                }
                default:
                    break;
                }
                scan_events(rs, out);
                ++cl_conserve;
                size_t want = expected_live(rs), got = h.live_blocks();
                if (want != got)
                    out.violate("C18/leak", sim::fmt("after %s: the heap holds %zu live blocks, the clients own %zu", OPNAME[op.kind], got, want));
                state_hash(rs, op, fired_kind);
            }
            // implicit final op: every client releases everything it still holds
            for (size_t ci = 0; ci < clients.size(); ++ci)
            {
                for (Slot& s : rs.slots[ci])
                    release_slot(*clients[ci], s, false, out, log);
                rs.slots[ci].clear();
                if (rs.vec_used[ci])
                    clients[ci]->vec_destroy();
            }
            scan_events(rs, out);
            ++cl_end;
            if (h.live_blocks() != 0)
                out.violate("C18/leak", sim::fmt("end of history: %zu heap blocks are still live after every block was deallocated", h.live_blocks()));
            log.rec("end", h.live_blocks(), h.events.size());
            if (!any_fault)
                ++p_faultfree;
            if (rs.failure_while_live)
                d_nontrivial.add(log.h);
            return out;
        }

        void verify_slot(const Slot& s, uint64_t es, sim::Outcome& out)
        {
            if (!s.written)
                return;
            ++cl_verify;
            uint64_t bytes = s.n * es;
            const unsigned char* p = (const unsigned char*)s.p;
            bool ok = true;
            if (bytes <= (1u << 20))
            {
                for (uint64_t i = 0; i < bytes && ok; ++i)
                    ok = p[i] == pat(s.pattern, i);
            }
            else
                for (uint64_t i = 0; i < 4096 && ok; ++i)
                    ok = p[i] == pat(s.pattern, i) && p[bytes - 1 - i] == pat(s.pattern, bytes - 1 - i);
            if (!ok)
                out.violate("C18/corrupted-block", sim::fmt("the %llu bytes written to a live block were changed by somebody else (aliasing live ranges)", (unsigned long long)bytes));
        }

        void release_slot(ClientBase& c, const Slot& s, bool rebound, sim::Outcome& out, sim::Log& log)
        {
            SimHeap& h = heap();
            ++c_client_calls;
            ++cl_dealloc;
            verify_slot(s, c.elem_size(), out);
            size_t live_before = h.live_blocks();
            const Block* b = h.find_containing((uintptr_t)s.p);
            uint64_t bid = b ? b->id : 0;
            h.begin_call(0, false);
            if (rebound)
            {
                ++p_rebind;
                c.deallocate_rebound(s.p, (size_t)s.n);
            }
            else
                c.deallocate(s.p, (size_t)s.n);
            log.rec(rebound ? "copy_rebind" : "deallocate", (uint64_t)((uintptr_t)s.p - h.arena), s.n, h.live_blocks());
            // exactly the block that held the slot must have died
            auto it = h.blocks.find(b ? b->base : 0);
            bool died = bid && (it == h.blocks.end() || !it->second.live || it->second.id != bid);
            if (!died || h.live_blocks() + 1 != live_before)
                out.violate("C18/leak", sim::fmt("deallocate(%p, %llu) did not release exactly the block it was given (live blocks %zu -> %zu)", s.p, (unsigned long long)s.n, live_before,
                                                 h.live_blocks()));
        }

        // ------------------------------------------------------------------ stub validation: same plans on the real glibc heap
        // Only what is observable without the stub is judged: alignment, exception type, writability (ASan/valgrind watch the rest).
        sim::Outcome execute_real(const Plan& plan, sim::Log& log)
        {
            sim::Outcome out;
            std::vector<std::vector<Slot>> slots(clients.size());
            for (const Op& op : plan.ops)
            {
                ++out.ops_executed;
                size_t ci = op.client % clients.size();
                ClientBase& c = *clients[ci];
                const uint64_t es = c.elem_size();
                if (op.kind == OP_ALLOCATE)
                {
                    unsigned __int128 bytes = (unsigned __int128)op.n * es;
                    if (bytes > (unsigned __int128)(8u << 20) && bytes <= (unsigned __int128)SIZE_MAX && bytes < ((unsigned __int128)1 << 40))
                        continue; // do not really take gigabytes from the machine
                    AllocResult r;
                    {
                        r = c.allocate((size_t)op.n, op.via);
                    }
                    log.rec("allocate", ci, op.n, r.p != nullptr, r.threw);
                    if (r.threw)
                    {
                        if (!r.bad_alloc)
                            out.violate("C18/wrong-exception", "allocate reported failure with an exception that is not std::bad_alloc");
                        continue;
                    }
                    if (bytes > (unsigned __int128)SIZE_MAX)
                    {
                        out.violate("C18/small-block-on-overflow", "unrepresentable n*sizeof(T) returned a pointer on the real heap");
                        c.deallocate(r.p, 0);
                        continue;
                    }
                    if (!r.p)
                    {
                        if (op.n && !c.reports_failure_by_null()) // aligned_malloc reports failure by nullptr; the allocator must throw
                            out.violate("C18/no-throw-on-failure", "allocate returned nullptr without throwing");
                        continue;
                    }
                    if ((uintptr_t)r.p % c.align())
                        out.violate("C18/misaligned", "real heap: pointer is not a multiple of Align");
                    memset(r.p, 0x5a, (size_t)bytes); // ASan/valgrind check the block really has n*sizeof(T) writable bytes
                    slots[ci].push_back(Slot { r.p, op.n, 1, 0, false });
                }
                else if ((op.kind == OP_DEALLOCATE || op.kind == OP_COPY_REBIND) && !slots[ci].empty())
                {
                    size_t si = op.slot % slots[ci].size();
                    Slot s = slots[ci][si];
                    slots[ci].erase(slots[ci].begin() + (long)si);
                    if (op.kind == OP_COPY_REBIND)
                        c.deallocate_rebound(s.p, (size_t)s.n);
                    else
                        c.deallocate(s.p, (size_t)s.n);
                    log.rec("deallocate", ci, s.n);
                }
            }
            for (size_t ci = 0; ci < clients.size(); ++ci)
                for (Slot& s : slots[ci])
                    clients[ci]->deallocate(s.p, (size_t)s.n);
            return out;
        }

        // ------------------------------------------------------------------ (de)serialisation
        Value to_json(const Plan& plan)
        {
            Value o = Value::object();
            Value s = Value::object();
            s.set("reuse", REUSENAME[plan.setup.reuse]).set("exact_align", plan.setup.exact_align).set("zero", plan.setup.zero_null ? "null" : "unique");
            s.set("capacity", (unsigned long long)plan.setup.capacity).set("junk", plan.setup.junk).set("fail_rate", plan.setup.fail_rate);
            s.set("new_handler", NHNAME[plan.setup.new_handler % 3]);
            o.set("setup", s);
            Value ops = Value::array();
            for (const Op& op : plan.ops)
            {
                Value j = Value::object();
                const ClientBase& c = *clients[op.client % clients.size()];
                j.set("client", (unsigned)(op.client % clients.size())).set("T", c.tname()).set("align", c.is_default() ? Value("default") : Value((unsigned long long)c.align()));
                j.set("op", OPNAME[op.kind]);
                switch (op.kind)
                {
                case OP_ALLOCATE:
                    j.set("n", (unsigned long long)op.n).set("family", op.n_family).set("via", VIANAME[op.via & 3]);
                    if (op.fault.empty())
                        j.set("fault", Value());
                    else
                        j.set("fault", Value::object().set("kind", op.fault).set("requests_refused", op.fail_mask == ~0ull ? Value("all") : Value((unsigned long long)(op.fail_mask == 3 ? 2 : 1))));
                    // what the heap does to *memptr if this request fails (injected or by genuine exhaustion)
                    j.set("memptr_on_failure", op.clobber ? "clobber" : "keep");
                    break;
                case OP_DEALLOCATE:
                case OP_WRITE_ALL:
                case OP_VERIFY:
                case OP_COPY_REBIND:
                case OP_LOAD_STORE:
                    j.set("slot", op.slot);
                    break;
                case OP_COMPARE:
                    j.set("other_align", (unsigned long long)((size_t)1 << (3 + op.other_align_idx % 10))).set("other_T", op.other_double ? "double" : "char");
                    break;
                case OP_VECTOR:
                    j.set("step", VSNAME[op.step % N_VECSTEP]).set("arg", (unsigned long long)op.arg).set("fail_mask", (unsigned long long)op.fail_mask).set("memptr", op.clobber ? "clobber" : "keep");
                    break;
                case OP_PREDICATES:
                    j.set("slot", op.slot).set("byte_off", op.byte_off);
                    break;
                default:
                    break;
                }
                ops.push(j);
            }
            o.set("ops", ops);
            return o;
        }
        Plan from_json(const Value& o)
        {
            Plan plan;
            const Value& s = o.at("setup");
            std::string ru = s.get_str("reuse", "lifo");
            plan.setup.reuse = ru == "fifo" ? 1 : ru == "never" ? 2
                                                                : 0;
            plan.setup.exact_align = s.at("exact_align").as_bool();
            plan.setup.zero_null = s.get_str("zero", "unique") == "null";
            plan.setup.capacity = s.at("capacity").as_u64();
            plan.setup.junk = (unsigned)s.get_u64("junk", 0xa5);
            plan.setup.fail_rate = s.has("fail_rate") ? s.at("fail_rate").as_double() : 0;
            {
                std::string nh = s.get_str("new_handler", "none");
                plan.setup.new_handler = nh == NHNAME[1] ? 1 : nh == NHNAME[2] ? 2
                                                                                : 0;
            }
            for (const Value& j : o.at("ops").a)
            {
                Op op;
                op.client = (uint32_t)j.at("client").as_u64();
                std::string k = j.at("op").as_string();
                int kind = -1;
                for (int i = 0; i < N_OPKIND; ++i)
                    if (k == OPNAME[i])
                        kind = i;
                if (kind < 0)
                    throw std::runtime_error("unknown op " + k);
                op.kind = (OpKind)kind;
                op.slot = (uint32_t)j.get_u64("slot", 0);
                if (op.kind == OP_ALLOCATE)
                {
                    op.n = j.at("n").as_u64();
                    op.n_family = j.get_str("family", "");
                    {
                        std::string v = j.get_str("via", VIANAME[0]);
                        for (int k = 0; k < 4; ++k)
                            if (v == VIANAME[k])
                                op.via = k;
                    }
                    if (j.has("fault") && j.at("fault").type == Value::Object)
                    {
                        op.fault = j.at("fault").get_str("kind", "enomem_coin");
                        const Value& f = j.at("fault");
                        op.fail_mask = 1;
                        if (f.has("requests_refused"))
                            op.fail_mask = f.at("requests_refused").type == Value::String ? ~0ull : (f.at("requests_refused").as_u64() >= 2 ? 3 : 1);
                    }
                    op.clobber = j.get_str("memptr_on_failure", "keep") == "clobber";
                }
                else if (op.kind == OP_COMPARE)
                {
                    uint64_t a = j.at("other_align").as_u64();
                    uint32_t idx = 0;
                    while (((uint64_t)1 << (3 + idx)) < a && idx < 9)
                        ++idx;
                    op.other_align_idx = idx;
                    op.other_double = j.get_str("other_T", "char") == "double";
                }
                else if (op.kind == OP_VECTOR)
                {
                    std::string st = j.at("step").as_string();
                    for (int i = 0; i < N_VECSTEP; ++i)
                        if (st == VSNAME[i])
                            op.step = i;
                    op.arg = j.at("arg").as_u64();
                    op.fail_mask = j.at("fail_mask").as_u64();
                    op.clobber = j.get_str("memptr", "keep") == "clobber";
                }
                else if (op.kind == OP_PREDICATES)
                    op.byte_off = (uint32_t)j.get_u64("byte_off", 0);
                plan.ops.push_back(op);
            }
            return plan;
        }

        // ------------------------------------------------------------------ shrinking support
        size_t n_ops(const Plan& p) { return p.ops.size(); }
        Plan without_ops(const Plan& p, const std::vector<bool>& keep)
        {
            Plan q;
            q.setup = p.setup;
            for (size_t i = 0; i < p.ops.size(); ++i)
                if (keep[i])
                    q.ops.push_back(p.ops[i]);
            return q;
        }
        std::vector<Plan> simpler(const Plan& p)
        {
            std::vector<Plan> out;
            auto with_setup = [&](Setup s)
            {
                Plan q = p;
                q.setup = s;
                out.push_back(q);
            };
            if (p.setup.reuse != 2)
            {
                Setup s = p.setup;
                s.reuse = 2;
                with_setup(s);
            }
            if (p.setup.zero_null)
            {
                Setup s = p.setup;
                s.zero_null = false;
                with_setup(s);
            }
            if (p.setup.new_handler)
            {
                Setup s = p.setup;
                s.new_handler = 0;
                with_setup(s);
            }
            if (p.setup.capacity != (64u << 20))
            {
                Setup s = p.setup;
                s.capacity = 64u << 20;
                with_setup(s);
            }
            if (p.setup.exact_align)
            {
                Setup s = p.setup;
                s.exact_align = false;
                with_setup(s);
            }
            for (size_t i = 0; i < p.ops.size(); ++i)
            {
                const Op& op = p.ops[i];
                auto push_op = [&](const Op& o2)
                {
                    Plan q = p;
                    q.ops[i] = o2;
                    out.push_back(q);
                };
                if (op.kind == OP_ALLOCATE)
                {
                    if (!op.fault.empty())
                    {
                        Op o2 = op;
                        o2.fault.clear();
                        o2.fail_mask = 0;
                        push_op(o2);
                        if (op.fail_mask > 1)
                        {
                            Op o4 = op;
                            o4.fail_mask = op.fail_mask == 3 ? 1 : 3;
                            push_op(o4);
                        }
                        if (op.clobber)
                        {
                            Op o3 = op;
                            o3.clobber = false;
                            push_op(o3);
                        }
                    }
                    if (op.via)
                    {
                        Op o5 = op;
                        o5.via = 0;
                        push_op(o5);
                    }
                    for (uint64_t cand : { (uint64_t)1, op.n / 2, op.n - 1 })
                        if (cand < op.n)
                        {
                            Op o2 = op;
                            o2.n = cand;
                            o2.n_family = "shrunk";
                            push_op(o2);
                        }
                }
                else if (op.kind == OP_VECTOR)
                {
                    if (op.fail_mask)
                    {
                        Op o2 = op;
                        o2.fail_mask = 0;
                        push_op(o2);
                        Op o3 = op;
                        o3.fail_mask &= op.fail_mask - 1; // drop the lowest set bit
                        if (o3.fail_mask != op.fail_mask)
                            push_op(o3);
                    }
                    if (op.arg > 1)
                    {
                        Op o2 = op;
                        o2.arg = op.arg / 2;
                        push_op(o2);
                        Op o3 = op;
                        o3.arg = op.arg - 1;
                        push_op(o3);
                    }
                }
                else if (op.kind == OP_PREDICATES && op.byte_off)
                {
                    Op o2 = op;
                    o2.byte_off = op.byte_off / 2;
                    push_op(o2);
                }
                if (op.slot)
                {
                    Op o2 = op;
                    o2.slot = 0;
                    push_op(o2);
                }
            }
            return out;
        }
    };
}

int main(int argc, char** argv)
{
    return sim::sim_main<C18Harness>(argc, argv);
}
