// C18: clients over the *default* alignment (aligned_allocator<T>), plus the pure predicates that ride along:
// default alignment satisfies load_aligned/store_aligned of the default architecture, is_aligned<A>, get_alignment_offset.
#include "client_impl.hpp"

#include <csetjmp>
#include <csignal>

#include <xsimd/xsimd.hpp>

namespace c18
{
    namespace
    {
        sigjmp_buf g_jmp;
        volatile sig_atomic_t g_armed = 0;
        void on_fault(int)
        {
            if (g_armed)
                siglongjmp(g_jmp, 1);
            _exit(71);
        }

        template <class A>
        bool is_aligned_disagrees(const void* q)
        {
            bool got = xsimd::is_aligned<A>(q);
            bool want = ((uintptr_t)q % (uintptr_t)A::alignment()) == 0;
            return got != want;
        }

        struct Pair16
        {
            uint16_t a, b;
        };

        template <class T>
        size_t offset_oracle(const T* p, size_t size, size_t block)
        {
            // smallest k <= size such that p + k is aligned on block elements, else size
            for (size_t k = 0; k <= size; ++k)
                if (((uintptr_t)(p + k)) % (block * sizeof(T)) == 0)
                    return k;
            return size;
        }

        template <class T>
        std::string offset_check(const void* q, uint64_t& evaluated)
        {
            if ((uintptr_t)q % alignof(T))
                return "";
            const T* p = (const T*)q;
            static const size_t sizes[] = { 0, 1, 2, 3, 7, 8, 15, 16, 17, 31, 33, 64, 100 };
            // block == 1 means "every element is its own block": only meaningful for a pointer that is a whole number of
            // elements away from 0; for types with sizeof > alignof the other residues are left out (no contract there)
            const bool elem_aligned = ((uintptr_t)q % sizeof(T)) == 0;
            for (size_t block = elem_aligned ? 1 : 2; block <= 64; block *= 2)
                for (size_t size : sizes)
                {
                    ++evaluated;
                    size_t got = xsimd::get_alignment_offset(p, size, block);
                    size_t want = offset_oracle(p, size, block);
                    if (got != want)
                        return "alignment-offset: get_alignment_offset(p%" + std::to_string((uintptr_t)q % 512) + ", size=" + std::to_string(size) + ", block=" + std::to_string(block)
                            + ") returned " + std::to_string(got) + ", smallest aligned k is " + std::to_string(want);
                }
            return "";
        }

        template <class T>
        struct DefaultClient : ClientImpl<T, xsimd::aligned_allocator<T>::alignment, true>
        {
            using Base = ClientImpl<T, xsimd::aligned_allocator<T>::alignment, true>;
            explicit DefaultClient(const char* n)
                : Base(n)
            {
            }
            LoadStoreOutcome load_store(void* p, size_t n) override
            {
                LoadStoreOutcome o;
                o.supported = true;
                using B = xsimd::batch<T>;
                struct sigaction sa, old_segv, old_bus, old_abrt;
                memset(&sa, 0, sizeof sa);
                sa.sa_handler = on_fault;
                sigemptyset(&sa.sa_mask);
                sa.sa_flags = SA_NODEFER;
                sigaction(SIGSEGV, &sa, &old_segv);
                sigaction(SIGBUS, &sa, &old_bus);
                sigaction(SIGABRT, &sa, &old_abrt); // the library's own assert(is_aligned(..)) counts as the fault it guards against
                std::vector<unsigned char> before((unsigned char*)p, (unsigned char*)p + (n < (size_t(1) << 16) ? n : (size_t(1) << 16)) * sizeof(T));
                if (sigsetjmp(g_jmp, 1) == 0)
                {
                    g_armed = 1;
                    T* e = (T*)p;
                    const size_t n_touch = n < (size_t(1) << 16) ? n : (size_t(1) << 16); // a multi-gigabyte block is sampled at its start
                    for (size_t k = 0; k + B::size <= n_touch; k += B::size)
                    {
                        B b = B::load_aligned(e + k);
                        b.store_aligned(e + k);
                        ++o.batches;
                    }
                    g_armed = 0;
                }
                else
                {
                    g_armed = 0;
                    o.fault = true;
                }
                sigaction(SIGSEGV, &old_segv, nullptr);
                sigaction(SIGBUS, &old_bus, nullptr);
                sigaction(SIGABRT, &old_abrt, nullptr);
                o.changed = memcmp(before.data(), p, before.size()) != 0;
                return o;
            }
            PredOutcome predicates(const void* q) const override
            {
                PredOutcome o;
                bool bad = false;
                const char* which = "";
#define C18_ISAL(A)                        \
    ++o.evaluated;                         \
    if (is_aligned_disagrees<A>(q) && !bad) \
    {                                      \
        bad = true;                        \
        which = #A;                        \
    }
                C18_ISAL(xsimd::sse2)
                C18_ISAL(xsimd::sse3)
                C18_ISAL(xsimd::ssse3)
                C18_ISAL(xsimd::sse4_1)
                C18_ISAL(xsimd::sse4_2)
                C18_ISAL(xsimd::fma3<xsimd::sse4_2>)
                C18_ISAL(xsimd::fma4)
                C18_ISAL(xsimd::avx)
                C18_ISAL(xsimd::fma3<xsimd::avx>)
                C18_ISAL(xsimd::avx2)
                C18_ISAL(xsimd::fma3<xsimd::avx2>)
                C18_ISAL(xsimd::avxvnni)
                C18_ISAL(xsimd::avx512f)
                C18_ISAL(xsimd::avx512cd)
                C18_ISAL(xsimd::avx512dq)
                C18_ISAL(xsimd::avx512bw)
                C18_ISAL(xsimd::avx512er)
                C18_ISAL(xsimd::avx512pf)
                C18_ISAL(xsimd::avx512ifma)
                C18_ISAL(xsimd::avx512vbmi)
                C18_ISAL(xsimd::avx512vbmi2)
                C18_ISAL(xsimd::avx512vnni<xsimd::avx512bw>)
                C18_ISAL(xsimd::avx512vnni<xsimd::avx512vbmi2>)
                C18_ISAL(xsimd::default_arch)
#if XSIMD_WITH_EMULATED
                // architectures that do not *require* alignment still have one (emulated<N>: 8): the predicate is about the multiple, not the requirement
                C18_ISAL(xsimd::emulated<128>)
                C18_ISAL(xsimd::emulated<256>)
                C18_ISAL(xsimd::emulated<512>)
#endif
#undef C18_ISAL
                // default template argument
                ++o.evaluated;
                if (xsimd::is_aligned(q) != (((uintptr_t)q % xsimd::default_arch::alignment()) == 0) && !bad)
                {
                    bad = true;
                    which = "<default>";
                }
                if (bad)
                {
                    o.problem = std::string("is_aligned: is_aligned<") + which + ">(p) disagrees with p % alignment == 0 at residue " + std::to_string((uintptr_t)q % 128);
                    return o;
                }
                o.problem = offset_check<T>(q, o.evaluated);
                // element types whose size exceeds their alignment (the pointer can be alignof-aligned without being element-aligned)
                if (o.problem.empty())
                    o.problem = offset_check<std::complex<float>>(q, o.evaluated);
                if (o.problem.empty())
                    o.problem = offset_check<std::complex<double>>(q, o.evaluated);
                if (o.problem.empty())
                    o.problem = offset_check<Pair16>(q, o.evaluated);
                return o;
            }
        };
    }

    // operator== / operator!= over a matrix of element types (ordinary, larger than their alignment, and over-aligned relative to the allocator's
    // Align - no storage is requested here, so Align < alignof(T) is harmless) x alignments: equal iff the Align arguments are equal
    namespace
    {
        template <class T1, size_t A1, class T2, size_t A2>
        bool eq_wrong()
        {
            xsimd::aligned_allocator<T1, A1> a;
            xsimd::aligned_allocator<T2, A2> b;
            const bool want = A1 == A2;
            return (a == b) != want || (a != b) == want || (b == a) != want;
        }
        template <class T1, class T2, size_t A1>
        bool eq_row_wrong()
        {
            return eq_wrong<T1, A1, T2, 8>() || eq_wrong<T1, A1, T2, 16>() || eq_wrong<T1, A1, T2, 32>() || eq_wrong<T1, A1, T2, 64>() || eq_wrong<T1, A1, T2, 256>() || eq_wrong<T1, A1, T2, 4096>();
        }
        template <class T1, class T2>
        bool eq_pair_wrong()
        {
            return eq_row_wrong<T1, T2, 8>() || eq_row_wrong<T1, T2, 16>() || eq_row_wrong<T1, T2, 32>() || eq_row_wrong<T1, T2, 64>() || eq_row_wrong<T1, T2, 256>() || eq_row_wrong<T1, T2, 4096>();
        }
        template <class T1>
        const char* eq_type_wrong()
        {
            if (eq_pair_wrong<T1, char>())
                return "char";
            if (eq_pair_wrong<T1, double>())
                return "double";
            if (eq_pair_wrong<T1, long double>())
                return "long double";
            if (eq_pair_wrong<T1, std::complex<double>>())
                return "std::complex<double>";
            if (eq_pair_wrong<T1, Over64>())
                return "alignas(64) struct";
            return nullptr;
        }
    }
    std::string eq_matrix_problem()
    {
        const char* other;
        if ((other = eq_type_wrong<char>()))
            return std::string("eq-relation: aligned_allocator<char, A1> vs aligned_allocator<") + other + ", A2>: operator== / != is not 'A1 == A2' for some A1, A2 in {8,16,32,64,256,4096}";
        if ((other = eq_type_wrong<long double>()))
            return std::string("eq-relation: aligned_allocator<long double, A1> vs aligned_allocator<") + other + ", A2>: operator== / != is not 'A1 == A2' for some A1, A2 in {8,16,32,64,256,4096}";
        if ((other = eq_type_wrong<Over64>()))
            return std::string("eq-relation: aligned_allocator<alignas(64) struct, A1> vs aligned_allocator<") + other + ", A2>: operator== / != is not 'A1 == A2' for some A1, A2 in {8,16,32,64,256,4096}";
        if ((other = eq_type_wrong<Pod24>()))
            return std::string("eq-relation: aligned_allocator<24-byte POD, A1> vs aligned_allocator<") + other + ", A2>: operator== / != is not 'A1 == A2' for some A1, A2 in {8,16,32,64,256,4096}";
        return "";
    }

    // static facts about the default allocator (evaluated once per run by the harness through this hook)
    std::string default_alignment_problem()
    {
        if (xsimd::aligned_allocator<float>::alignment % xsimd::default_arch::alignment() != 0)
            return "default-align: aligned_allocator<T>::alignment is not a multiple of default_arch::alignment()";
        if (xsimd::default_arch::requires_alignment()
            && xsimd::default_allocator<float>::alignment % xsimd::default_arch::alignment() != 0)
            return "default-align: default_allocator<T> alignment is not a multiple of default_arch::alignment()";
        if (!std::is_same<xsimd::allocator_alignment_t<xsimd::aligned_allocator<float>>, xsimd::aligned_mode>::value)
            return "default-align: allocator_alignment_t<aligned_allocator> is not aligned_mode";
        return "";
    }

    void make_clients_default(std::vector<ClientBase*>& out)
    {
        out.push_back(new DefaultClient<int8_t>("i8"));
        out.push_back(new DefaultClient<int16_t>("i16"));
        out.push_back(new DefaultClient<float>("f32"));
        out.push_back(new DefaultClient<double>("f64"));
        // every other element type that has a batch: the default alignment is per element type
        out.push_back(new DefaultClient<uint8_t>("u8"));
        out.push_back(new DefaultClient<uint16_t>("u16"));
        out.push_back(new DefaultClient<int32_t>("i32"));
        out.push_back(new DefaultClient<uint32_t>("u32"));
        out.push_back(new DefaultClient<int64_t>("i64"));
        out.push_back(new DefaultClient<uint64_t>("u64"));
        out.push_back(new DefaultClient<std::complex<float>>("complex<float>"));
        out.push_back(new DefaultClient<std::complex<double>>("complex<double>"));
    }
}
