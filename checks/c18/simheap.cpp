#include "simheap.hpp"

#include <cerrno>
#include <cstdio>
#include <cstdlib>
#include <cstring>
#include <stdexcept>
#include <sys/mman.h>

#ifndef MAP_FIXED_NOREPLACE
#define MAP_FIXED_NOREPLACE 0x100000
#endif

extern "C"
{
    int __real_posix_memalign(void**, size_t, size_t);
    void __real_free(void*);
    void* __real_malloc(size_t);
    void* __real_calloc(size_t, size_t);
    void* __real_realloc(void*, size_t);
    void* __real_aligned_alloc(size_t, size_t);
    void* __real_memalign(size_t, size_t);
    void* __real_valloc(size_t);
}

namespace c18
{
    static const size_t RZ = 64;
    static const unsigned char RZ_BYTE = 0xfd;
    static const unsigned char DEAD_BYTE = 0xdd;

    SimHeap& heap()
    {
        static SimHeap* h = new SimHeap();
        return *h;
    }

    void SimHeap::init_arena()
    {
        if (arena)
            return;
        arena_size = (size_t)64 << 30; // virtual only (MAP_NORESERVE): large blocks are touched at their edges, so multi-GiB requests can be granted and measured
        void* hint = (void*)0x5a0000000000ull; // 2 MiB aligned, far from everything
        void* p = mmap(hint, arena_size, PROT_READ | PROT_WRITE, MAP_PRIVATE | MAP_ANONYMOUS | MAP_NORESERVE | MAP_FIXED_NOREPLACE, -1, 0);
        arena_fixed = (p == hint);
        if (p == MAP_FAILED || !arena_fixed)
        {
            if (p != MAP_FAILED)
                munmap(p, arena_size);
            // fall back to any 2 MiB aligned place; logs use arena-relative addresses anyway
            size_t span = arena_size + (2u << 20);
            char* q = (char*)mmap(nullptr, span, PROT_READ | PROT_WRITE, MAP_PRIVATE | MAP_ANONYMOUS | MAP_NORESERVE, -1, 0);
            if (q == MAP_FAILED)
                throw std::runtime_error("SimHeap: cannot map arena");
            uintptr_t a = ((uintptr_t)q + (2u << 20) - 1) & ~(uintptr_t)((2u << 20) - 1);
            p = (void*)a;
        }
        arena = (uintptr_t)p;
    }

    void SimHeap::reset()
    {
        init_arena();
        if (top_max)
            madvise((void*)arena, (top_max + 4095) & ~(size_t)4095, MADV_DONTNEED);
        top = top_max = 0;
        live_bytes = 0;
        next_id = 1;
        call = 0;
        blocks.clear();
        free_list.clear();
        events.clear();
        fail_mask = 0;
        clobber_memptr = false;
        requests_in_call = injected_fired = capacity_fired = 0;
        in_client = false;
    }

    void SimHeap::begin_call(uint64_t mask, bool clobber)
    {
        ++call;
        fail_mask = mask;
        clobber_memptr = clobber;
        requests_in_call = 0;
        injected_fired = 0;
        capacity_fired = 0;
    }

    size_t SimHeap::live_blocks() const
    {
        size_t n = 0;
        for (auto& kv : blocks)
            n += kv.second.live;
        return n;
    }

    const Block* SimHeap::find_containing(uintptr_t p) const
    {
        auto it = blocks.upper_bound(p);
        if (it == blocks.begin())
            return nullptr;
        --it;
        const Block& b = it->second;
        // a zero-size block "contains" exactly its base
        if (p >= b.base && (p < b.base + b.size || (b.size == 0 && p == b.base)))
            return &b;
        return nullptr;
    }

    static void fill_edges(uintptr_t base, size_t size, unsigned char v)
    {
        if (size <= (64u << 10))
            memset((void*)base, v, size);
        else
        {
            memset((void*)base, v, 4096);
            memset((void*)(base + size - 4096), v, 4096);
        }
    }

    bool SimHeap::check_redzones(const Block& b) const
    {
        const unsigned char* lo = (const unsigned char*)(b.base - RZ);
        for (size_t i = 0; i < RZ; ++i)
            if (lo[i] != RZ_BYTE)
                return false;
        const unsigned char* hi = (const unsigned char*)(b.base + b.size);
        size_t tail = b.cap - b.size + RZ;
        if (tail > 4096 + RZ)
            tail = 4096 + RZ; // only the part next to the block matters for an overrun
        for (size_t i = 0; i < tail; ++i)
            if (hi[i] != RZ_BYTE)
                return false;
        return true;
    }

    int SimHeap::alloc(void** out, size_t align, size_t size, const char* via, bool validate_posix)
    {
        init_arena();
        unsigned req = requests_in_call++;
        if (validate_posix && (align < sizeof(void*) || (align & (align - 1)) != 0))
        {
            events.push_back({ EV_ALLOC_EINVAL, 0, 0, size, align, call });
            return EINVAL;
        }
        if (align == 0 || (align & (align - 1)) != 0)
            align = 16;
        bool inject = req < 64 && ((fail_mask >> req) & 1);
        if (inject)
        {
            ++injected_fired;
            events.push_back({ EV_ALLOC_FAIL_INJECTED, 0, 0, size, align, call });
            if (clobber_memptr && out)
                *out = (void*)(uintptr_t)0xdead0000beef0010ull; // older systems left garbage in *memptr
            return ENOMEM;
        }
        if (size == 0 && zero_null)
        {
            events.push_back({ EV_ALLOC_ZERO_NULL, 0, 0, 0, align, call });
            if (out)
                *out = nullptr;
            return 0;
        }
        if (size > capacity || live_bytes + size > capacity)
        {
            ++capacity_fired;
            events.push_back({ EV_ALLOC_FAIL_CAPACITY, 0, 0, size, align, call });
            if (clobber_memptr && out)
                *out = (void*)(uintptr_t)0xdead0000beef0010ull;
            return ENOMEM;
        }
        auto placement_ok = [&](uintptr_t base) -> bool
        {
            if (base % align)
                return false;
            if (exact_align && (base % (2 * align)) == 0)
                return false;
            return true;
        };
        uintptr_t base = 0;
        size_t cap = 0;
        if (reuse != REUSE_NEVER && !free_list.empty())
        {
            // LIFO: most recently freed first (maximises aliasing of stale pointers); FIFO: oldest first
            for (size_t k = 0; k < free_list.size(); ++k)
            {
                size_t idx = reuse == REUSE_LIFO ? free_list.size() - 1 - k : k;
                auto it = blocks.find(free_list[idx]);
                if (it == blocks.end() || it->second.live)
                    continue;
                if (it->second.cap >= size && placement_ok(it->second.base))
                {
                    base = it->second.base;
                    cap = it->second.cap;
                    blocks.erase(it);
                    free_list.erase(free_list.begin() + (long)idx);
                    break;
                }
            }
        }
        if (!base)
        {
            uintptr_t cand = arena + top + RZ;
            cand = (cand + align - 1) & ~(uintptr_t)(align - 1);
            if (exact_align && (cand % (2 * align)) == 0)
                cand += align;
            size_t need = (cand - arena) + size + RZ;
            if (need > arena_size || need < size)
            {
                ++capacity_fired;
                events.push_back({ EV_ALLOC_FAIL_CAPACITY, 0, 0, size, align, call });
                return ENOMEM;
            }
            base = cand;
            cap = size;
            top = need;
            if (top > top_max)
                top_max = top;
        }
        memset((void*)(base - RZ), RZ_BYTE, RZ);
        {
            size_t tail = cap - size + RZ;
            if (tail > (64u << 10))
            {
                memset((void*)(base + size), RZ_BYTE, 4096 + RZ);
                memset((void*)(base + cap), RZ_BYTE, RZ);
            }
            else
                memset((void*)(base + size), RZ_BYTE, tail);
        }
        if (size)
            fill_edges(base, size, junk);
        Block b { next_id++, base, size, cap, align, true, call, via };
        blocks[base] = b;
        live_bytes += size;
        events.push_back({ EV_ALLOC, b.id, (uint64_t)(base - arena), size, align, call });
        if (out)
            *out = (void*)base;
        return 0;
    }

    void SimHeap::release(void* q)
    {
        if (!q)
        {
            events.push_back({ EV_FREE_NULL, 0, 0, 0, 0, call });
            return;
        }
        uintptr_t p = (uintptr_t)q;
        auto it = blocks.find(p);
        if (it == blocks.end())
        {
            events.push_back({ EV_INVALID_FREE, 0, (uint64_t)(p - arena), 0, 0, call });
            return;
        }
        Block& b = it->second;
        if (!b.live)
        {
            events.push_back({ EV_DOUBLE_FREE, b.id, (uint64_t)(p - arena), b.size, b.align, call });
            return;
        }
        if (!check_redzones(b))
            events.push_back({ EV_REDZONE_SMASHED, b.id, (uint64_t)(p - arena), b.size, b.align, call });
        b.live = false;
        live_bytes -= b.size;
        if (b.size)
            fill_edges(b.base, b.size, DEAD_BYTE);
        events.push_back({ EV_FREE, b.id, (uint64_t)(p - arena), b.size, b.align, call });
        free_list.push_back(b.base);
    }
}

// ------------------------------------------------------------------------------------------------
// link-time wrappers: every malloc-family call made by code compiled into the harness (xsimd is
// header-only, so its calls are here) arrives in these. Client context -> SimHeap, otherwise real heap.
using c18::heap;

extern "C"
{
    int __wrap_posix_memalign(void** memptr, size_t alignment, size_t size)
    {
        if (heap().in_client)
            return heap().alloc(memptr, alignment, size, "posix_memalign", true);
        return __real_posix_memalign(memptr, alignment, size);
    }
    void __wrap_free(void* p)
    {
        if (p && heap().arena && heap().in_arena(p))
        {
            heap().release(p);
            return;
        }
        if (!p && heap().in_client)
        {
            heap().release(nullptr);
            return;
        }
        __real_free(p);
    }
    void* __wrap_malloc(size_t size)
    {
        if (heap().in_client)
        {
            void* p = nullptr;
            return heap().alloc(&p, 16, size, "malloc", false) == 0 ? p : nullptr;
        }
        return __real_malloc(size);
    }
    void* __wrap_calloc(size_t n, size_t size)
    {
        if (heap().in_client)
        {
            unsigned __int128 t = (unsigned __int128)n * size;
            if (t > (unsigned __int128)SIZE_MAX)
                return nullptr;
            void* p = nullptr;
            if (heap().alloc(&p, 16, (size_t)t, "calloc", false) != 0)
                return nullptr;
            if (p)
                memset(p, 0, (size_t)t);
            return p;
        }
        return __real_calloc(n, size);
    }
    void* __wrap_realloc(void* old, size_t size)
    {
        if (heap().in_client || (old && heap().arena && heap().in_arena(old)))
        {
            void* p = nullptr;
            if (heap().alloc(&p, 16, size, "realloc", false) != 0)
                return nullptr;
            if (old && p)
            {
                const c18::Block* b = heap().find_containing((uintptr_t)old);
                if (b)
                    memcpy(p, old, b->size < size ? b->size : size);
            }
            if (old)
                heap().release(old);
            return p;
        }
        return __real_realloc(old, size);
    }
    void* __wrap_aligned_alloc(size_t alignment, size_t size)
    {
        if (heap().in_client)
        {
            void* p = nullptr;
            // ISO C: the alignment must be valid and the size an integral multiple of it (C11: undefined otherwise, C17: the call fails).
            // The simulated libc is a strict one: it records the contract violation and fails the call.
            if (alignment == 0 || (alignment & (alignment - 1)) != 0 || size % alignment != 0)
            {
                heap().events.push_back(c18::HeapEvent { c18::EV_ALLOC_EINVAL, 0, 0, (uint64_t)size, (uint64_t)alignment, heap().call });
                return nullptr;
            }
            return heap().alloc(&p, alignment, size, "aligned_alloc", false) == 0 ? p : nullptr;
        }
        return __real_aligned_alloc(alignment, size);
    }
    void* __wrap_memalign(size_t alignment, size_t size)
    {
        if (heap().in_client)
        {
            void* p = nullptr;
            return heap().alloc(&p, alignment, size, "memalign", false) == 0 ? p : nullptr;
        }
        return __real_memalign(alignment, size);
    }
    void* __wrap_valloc(size_t size)
    {
        if (heap().in_client)
        {
            void* p = nullptr;
            return heap().alloc(&p, 4096, size, "valloc", false) == 0 ? p : nullptr;
        }
        return __real_valloc(size);
    }
}
