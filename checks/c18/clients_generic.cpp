// compiled once per element type: -DC18_T=<type> -DC18_NAME="<name>" -DC18_FN=make_clients_<x>
#include "client_impl.hpp"

namespace c18
{
    void C18_FN(std::vector<ClientBase*>& out)
    {
        make_all_aligns<C18_T>(out, C18_NAME);
    }
}
