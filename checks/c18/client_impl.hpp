// C18: the code that actually exercises xsimd::aligned_allocator<T, Align> (real code under test).
#pragma once
#include <type_traits>
#include "client.hpp"

#include <complex>
#include <cstdlib>
#include <cstring>
#include <memory>
#include <new>
#include <vector>

#include <xsimd/config/xsimd_config.hpp>
#include <xsimd/config/xsimd_inline.hpp>

#include <xsimd/memory/xsimd_aligned_allocator.hpp>
#include <xsimd/memory/xsimd_alignment.hpp>

namespace c18
{
    // allocator of the reference-model vectors: the real heap, with the alignment the element type needs
    template <class T>
    struct ModelAlloc
    {
        using value_type = T;
        ModelAlloc() = default;
        template <class U>
        ModelAlloc(const ModelAlloc<U>&) noexcept
        {
        }
        T* allocate(size_t n)
        {
            void* p = nullptr;
            if (n > SIZE_MAX / sizeof(T) || posix_memalign(&p, alignof(T) < sizeof(void*) ? sizeof(void*) : alignof(T), n * sizeof(T)) != 0)
                throw std::bad_alloc();
            return static_cast<T*>(p);
        }
        void deallocate(T* p, size_t) noexcept { free(p); }
        template <class U>
        bool operator==(const ModelAlloc<U>&) const noexcept { return true; }
        template <class U>
        bool operator!=(const ModelAlloc<U>&) const noexcept { return false; }
    };
    template <class T>
    using ModelVec = std::vector<T, ModelAlloc<T>>;

    template <class T>
    inline T make_elem(uint64_t c)
    {
        T v;
        unsigned char* b = (unsigned char*)&v;
        uint64_t s = c * 0x9e3779b97f4a7c15ull + 0x632be59bd9b4e019ull;
        for (size_t i = 0; i < sizeof(T); ++i)
        {
            s ^= s >> 29;
            s *= 0xbf58476d1ce4e5b9ull;
            b[i] = (unsigned char)(s >> 56);
        }
        return v;
    }

    template <class T, size_t Align, bool IsDefault = false>
    struct ClientImpl : ClientBase
    {
        using AA = typename std::conditional<IsDefault, xsimd::aligned_allocator<T>, xsimd::aligned_allocator<T, Align>>::type;
        using Vec = std::vector<T, AA>;
        const char* name;
        Vec *v0 = nullptr, *v1 = nullptr;
        ModelVec<T> m0, m1; // reference model (real heap; honours alignof(T) even before C++17's aligned new)
        uint64_t elem_counter = 0;

        explicit ClientImpl(const char* n)
            : name(n)
        {
        }
        const char* tname() const override { return name; }
        size_t elem_size() const override { return sizeof(T); }
        size_t align() const override { return AA::alignment; }
        bool is_default() const override { return IsDefault; }
        size_t max_size() const override
        {
            AA a;
            return a.max_size();
        }
        AllocResult allocate(size_t n, int via) override
        {
            AllocResult r;
            AA a;
            ClientScope cs;
            try
            {
                // every public way of asking the allocator for n objects; the hint is some address the caller happens to hold
                int hint_target = 0;
                const void* hint = &hint_target;
                T* q;
                switch (via & 3)
                {
                case 1:
                    q = a.allocate(n, hint);
                    break;
                case 2:
                    q = std::allocator_traits<AA>::allocate(a, n);
                    break;
                case 3:
                    q = std::allocator_traits<AA>::allocate(a, n, hint);
                    break;
                default:
                    q = a.allocate(n);
                    break;
                }
                r.p = q;
                // what user code does next with a fresh block: ask whether it may use aligned accesses on it. Evaluated here, on the very
                // value allocate returned, so that anything the allocator told the optimizer about that value is in force.
                if (q)
                {
                    r.is_aligned_seen = (xsimd::is_aligned<xsimd::sse2>(q) ? 1 : 0) | (xsimd::is_aligned<xsimd::avx>(q) ? 2 : 0) | (xsimd::is_aligned<xsimd::avx512f>(q) ? 4 : 0);
                    if (sizeof(T) <= 64 && 64 % sizeof(T) == 0)
                        r.offset_seen = (long)xsimd::get_alignment_offset(q, 64, 64 / sizeof(T));
                }
            }
            catch (const std::bad_alloc&)
            {
                r.threw = true;
                r.bad_alloc = true;
            }
            catch (...)
            {
                r.threw = true;
            }
            return r;
        }
        void deallocate(void* p, size_t n) override
        {
            AA a;
            ClientScope cs;
            a.deallocate((T*)p, n);
        }
        void deallocate_rebound(void* p, size_t n) override
        {
            AA a;
            ClientScope cs;
            // rebind to another value type, copy-construct across value types, release through the copy
            typename AA::template rebind<unsigned char>::other b(a);
            b.deallocate((unsigned char*)p, n * sizeof(T));
        }
        template <class U>
        static void cmp_with(int idx, bool& eq, bool& ne)
        {
            AA a;
            switch (idx)
            {
#define C18_CASE(I)                                              \
    case I:                                                      \
    {                                                            \
        xsimd::aligned_allocator<U, (size_t(1) << (3 + I))> b;   \
        eq = (a == b);                                           \
        ne = (a != b);                                           \
        break;                                                   \
    }
                C18_CASE(0)
                C18_CASE(1)
                C18_CASE(2)
                C18_CASE(3)
                C18_CASE(4)
                C18_CASE(5)
                C18_CASE(6)
                C18_CASE(7)
                C18_CASE(8)
                C18_CASE(9)
#undef C18_CASE
            default:
                eq = ne = false;
            }
        }
        void compare(int other_align_idx, bool other_double, bool& eq, bool& ne) const override
        {
            if (other_double)
                cmp_with<double>(other_align_idx, eq, ne);
            else
                cmp_with<char>(other_align_idx, eq, ne);
        }

        void vec_reset() override
        {
            v0 = new Vec();
            v1 = new Vec();
            m0.clear();
            m1.clear();
            elem_counter = 0;
        }
        void vec_destroy() override
        {
            {
                ClientScope cs;
                delete v0;
                delete v1;
            }
            v0 = v1 = nullptr;
            m0.clear();
            m1.clear();
        }
        size_t vec_live_bytes() const override
        {
            size_t n = 0;
            if (v0 && v0->capacity())
                ++n;
            if (v1 && v1->capacity())
                ++n;
            return n; // number of live buffers
        }

        static bool same(const Vec& v, const ModelVec<T>& m)
        {
            if (v.size() != m.size())
                return false;
            return v.empty() || memcmp((const void*)v.data(), (const void*)m.data(), v.size() * sizeof(T)) == 0;
        }
        std::string audit(const Vec& v, const ModelVec<T>& m, const char* which) const
        {
            if (!same(v, m))
                return std::string("vector-contents: ") + which + " differs from the reference vector";
            if (v.capacity())
            {
                uintptr_t d = (uintptr_t)v.data();
                if (d % AA::alignment)
                    return std::string("misaligned: ") + which + ".data() is not a multiple of the allocator alignment";
                const Block* b = heap().find_containing(d);
                unsigned __int128 need = (unsigned __int128)v.capacity() * sizeof(T);
                if (!b || !b->live || (unsigned __int128)(d - b->base) + need > b->size)
                    return std::string("range-not-in-live-block: ") + which + " buffer is not inside one live heap block";
            }
            return "";
        }

        VecOutcome vec_step(VecStep s, size_t arg) override
        {
            VecOutcome o;
            if (!v0)
                vec_reset();
            auto guarded = [&](auto&& real) -> bool
            {
                try
                {
                    ClientScope cs;
                    real();
                    return true;
                }
                catch (const std::bad_alloc&)
                {
                    o.threw = true;
                    o.bad_alloc = true;
                }
                catch (...)
                {
                    o.threw = true;
                }
                return false;
            };
            switch (s)
            {
            case VS_PUSH:
                for (size_t i = 0; i < arg && !o.threw; ++i)
                {
                    T e = make_elem<T>(elem_counter++);
                    if (guarded([&]
                                { v0->push_back(e); }))
                        m0.push_back(e);
                }
                break;
            case VS_RESERVE:
                guarded([&]
                        { v0->reserve(v0->capacity() + arg); });
                break;
            case VS_SHRINK:
                guarded([&]
                        { v0->shrink_to_fit(); });
                break;
            case VS_MOVE:
                if (guarded([&]
                            { *v1 = std::move(*v0); }))
                {
                    m1 = std::move(m0);
                    m0.clear();
                    // moved-from state is valid but unspecified: normalise both sides
                    guarded([&]
                            { v0->clear(); });
                }
                break;
            case VS_SWAP:
                if (guarded([&]
                            { v0->swap(*v1); }))
                    m0.swap(m1);
                break;
            case VS_CLEAR:
                if (guarded([&]
                            { v0->clear(); v0->shrink_to_fit(); }))
                    m0.clear();
                else
                    m0.clear(); // clear() itself cannot fail; shrink_to_fit may (and then leaves the contents cleared)
                break;
            case VS_COPY:
                if (guarded([&]
                            { *v1 = *v0; }))
                    m1 = m0;
                else if (!same(*v1, m1))
                {
                    // copy assignment gives the basic guarantee only: v1 must still be a valid vector
                    m1.assign(v1->begin(), v1->end());
                }
                break;
            case VS_RESIZE:
            {
                T e = make_elem<T>(elem_counter++);
                if (guarded([&]
                            { v0->resize(arg, e); }))
                    m0.resize(arg, e);
                break;
            }
            default:
                break;
            }
            o.problem = audit(*v0, m0, "v0");
            if (o.problem.empty())
                o.problem = audit(*v1, m1, "v1");
            return o;
        }

        LoadStoreOutcome load_store(void*, size_t) override { return LoadStoreOutcome(); }
        PredOutcome predicates(const void*) const override { return PredOutcome(); }
    };

    // an allocator whose Align is smaller than alignof(T) hands out storage in which no T may live (the compiler may use aligned moves
    // on it), so for over-aligned element types only Align >= alignof(T) is instantiated
    template <class T, size_t Align>
    inline typename std::enable_if<(Align >= alignof(T))>::type add_client(std::vector<ClientBase*>& out, const char* name)
    {
        out.push_back(new ClientImpl<T, Align>(name));
    }
    template <class T, size_t Align>
    inline typename std::enable_if<(Align < alignof(T))>::type add_client(std::vector<ClientBase*>&, const char*)
    {
    }
    template <class T>
    inline void make_all_aligns(std::vector<ClientBase*>& out, const char* name)
    {
        add_client<T, 8>(out, name);
        add_client<T, 16>(out, name);
        add_client<T, 32>(out, name);
        add_client<T, 64>(out, name);
        add_client<T, 128>(out, name);
        add_client<T, 256>(out, name);
        add_client<T, 512>(out, name);
        add_client<T, 1024>(out, name);
        add_client<T, 2048>(out, name);
        add_client<T, 4096>(out, name);
    }
}
