// C18: type-erased clients, one per aligned_allocator<T, Align> instantiation. Everything that touches
// xsimd code runs inside a ClientScope so its heap traffic goes to SimHeap.
#pragma once
#include "simheap.hpp"

#include <cstddef>
#include <cstdint>
#include <string>
#include <vector>

namespace c18
{
    struct AllocResult
    {
        void* p = nullptr;
        bool threw = false;
        bool bad_alloc = false; // the exception was std::bad_alloc (or derived)
        // xsimd::is_aligned<A>(p) asked by the caller directly on allocate's result, in the caller's own translation unit and inlining context
        // (bit 0: 16-byte architecture, bit 1: 32-byte, bit 2: 64-byte); -1 = not evaluated
        int is_aligned_seen = -1;
        // xsimd::get_alignment_offset(p, 64, 64 / sizeof(T)) asked the same way (-1: not evaluated, e.g. sizeof(T) does not divide 64)
        long offset_seen = -1;
    };

    enum VecStep
    {
        VS_PUSH, // arg elements
        VS_RESERVE, // capacity + arg
        VS_SHRINK,
        VS_MOVE, // v1 = std::move(v0)
        VS_SWAP,
        VS_CLEAR, // clear + shrink_to_fit of v0
        VS_COPY, // v1 = v0 (copy assignment, may allocate)
        VS_RESIZE, // resize to arg
        N_VECSTEP
    };

    struct VecOutcome
    {
        bool threw = false;
        bool bad_alloc = false;
        std::string problem; // non-empty: oracle failure description (class suffix before ':')
    };

    struct PredOutcome
    {
        std::string problem;
        uint64_t evaluated = 0;
    };

    struct LoadStoreOutcome
    {
        bool supported = false;
        bool fault = false; // SIGSEGV/SIGBUS inside load_aligned/store_aligned
        bool changed = false; // bytes of the block changed by load+store round trip
        uint64_t batches = 0;
    };

    struct ClientBase
    {
        virtual ~ClientBase() {}
        virtual const char* tname() const = 0;
        virtual size_t elem_size() const = 0;
        virtual size_t align() const = 0; // the allocator's static alignment member
        virtual bool is_default() const = 0;
        virtual size_t max_size() const = 0;
        // via: 0 a.allocate(n), 1 a.allocate(n, hint), 2 allocator_traits::allocate(a, n), 3 allocator_traits::allocate(a, n, hint)
        virtual AllocResult allocate(size_t n, int via = 0) = 0;
        virtual void deallocate(void* p, size_t n) = 0;
        virtual void deallocate_rebound(void* p, size_t n) = 0; // through aligned_allocator<U, Align> built from this one
        // operator==/!= against aligned_allocator<U, 1 << (3 + other_align_idx)>, U = char|double
        virtual void compare(int other_align_idx, bool other_double, bool& eq, bool& ne) const = 0;
        // std::vector<T, aligned_allocator<T, Align>> pair living across the ops of one run
        virtual void vec_reset() = 0;
        virtual VecOutcome vec_step(VecStep s, size_t arg) = 0;
        virtual void vec_destroy() = 0;
        virtual size_t vec_live_bytes() const = 0;
        // default allocator only: batch<T>::load_aligned / store_aligned over the block
        virtual LoadStoreOutcome load_store(void* p, size_t n) = 0;
        // is_aligned<A>(q) for every x86 architecture and get_alignment_offset on q = p + byte_off
        virtual PredOutcome predicates(const void* q) const = 0;
        // xsimd::aligned_malloc reports failure by returning nullptr; the allocator reports it by throwing
        virtual bool reports_failure_by_null() const { return false; }
    };

    // factories, defined in clients_*.cpp
    void make_clients_char(std::vector<ClientBase*>&);
    void make_clients_i16(std::vector<ClientBase*>&);
    void make_clients_float(std::vector<ClientBase*>&);
    void make_clients_double(std::vector<ClientBase*>&);
    void make_clients_cdouble(std::vector<ClientBase*>&);
    void make_clients_pod24(std::vector<ClientBase*>&);
    void make_clients_pod4096(std::vector<ClientBase*>&);
    void make_clients_over32(std::vector<ClientBase*>&);
    void make_clients_over64(std::vector<ClientBase*>&);
    void make_clients_default(std::vector<ClientBase*>&);
    void make_clients_raw(std::vector<ClientBase*>&);

    struct Pod24
    {
        unsigned char b[24];
    };
    struct Pod4096
    {
        unsigned char b[4096];
    };
    // over-aligned element types (alignof(T) > alignof(max_align_t)), like __m256 / a batch or an alignas struct
    struct alignas(32) Over32
    {
        unsigned char b[32];
    };
    struct alignas(64) Over64
    {
        unsigned char b[192];
    };
}
