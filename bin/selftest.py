"""Validation of the machinery itself (DESIGN.md section 10).

  verif selftest determinism [IDs...]   many seeds, each run twice, at 1 and 16 workers, in separate processes: log hashes must agree
  verif selftest mutants [filter]       apply each catalogue entry to a scratch copy of /repo, run the quick check: mutants must be caught
                                        with the expected class, permitted changes must stay quiet
  verif selftest seeded [filter]        the same for the independently written changes under /verif/seeded/<id>/
Results go to evidence/selftest_<mode>.json.
"""
import fnmatch
import glob
import json
import os
import re
import shutil
import subprocess
import sys
import time

VERIF = os.path.dirname(os.path.dirname(os.path.abspath(__file__)))
DRIVER = os.path.join(VERIF, "bin", "verif")


def load_driver():
    import importlib.machinery
    import importlib.util
    l = importlib.machinery.SourceFileLoader("verif_driver", DRIVER)
    m = importlib.util.module_from_spec(importlib.util.spec_from_loader("verif_driver", l))
    l.exec_module(m)
    return m


def hashes_of(exe, seed, count, workers, params):
    procs = []
    for i in range(workers):
        procs.append(subprocess.Popen([exe, "run", "--seed", str(seed), "--first", "0", "--count", str(count), "--stride", str(workers), "--offset", str(i), "--hashes"] + params,
                                      stdout=subprocess.PIPE, stderr=subprocess.DEVNULL, text=True))
    out = {}
    for p in procs:
        o, _ = p.communicate()
        for line in o.splitlines():
            if line.startswith('{"hash"'):
                h = json.loads(line)["hash"]
                out[h["run"]] = h["h"]
    return out


def determinism(args):
    drv = load_driver()
    ids = args or sorted(drv.BUILDERS)
    result = {}
    rc = 0
    for prop in ids:
        built = drv.BUILDERS[prop]()
        cfg = drv.TIERS[prop]["quick"]
        params = []
        for k, v in cfg["params"].items():
            params += ["-p", "%s=%s" % (k, v)]
        seeds = [1, 2, 3, 4, 5, 6, 7, 8]
        count = 128
        compared = 0
        mismatches = []
        t0 = time.time()
        for s in seeds:
            maps = [hashes_of(built["harness"], s, count, w, params) for w in (1, 16, 1, 16, 5)]
            ref = maps[0]
            if len(ref) != count:
                mismatches.append({"seed": s, "problem": "expected %d hashes, got %d" % (count, len(ref))})
            for m in maps[1:]:
                for r in range(count):
                    compared += 1
                    if m.get(r) != ref.get(r):
                        mismatches.append({"seed": s, "run": r, "a": ref.get(r), "b": m.get(r)})
        result[prop] = {"verif_seeds": seeds, "runs_per_seed": count, "executions_per_run": 5, "worker_counts": [1, 16, 1, 16, 5], "comparisons": compared,
                        "mismatches": mismatches[:20], "n_mismatches": len(mismatches), "wall_s": round(time.time() - t0, 1)}
        print("determinism %s: %d comparisons, %d mismatches" % (prop, compared, len(mismatches)))
        if mismatches:
            rc = 1
    os.makedirs(os.path.join(VERIF, "evidence"), exist_ok=True)
    out = os.path.join(VERIF, "evidence", "selftest_determinism.json")
    merged = {}
    if os.path.exists(out):
        try:
            merged = json.load(open(out))
        except Exception:
            merged = {}
    merged.update(result)
    json.dump(merged, open(out, "w"), indent=1, sort_keys=True)
    return rc


def scratch_copy(tag):
    d = "/tmp/verif_scratch_%s_%d" % (tag, os.getpid())
    shutil.rmtree(d, ignore_errors=True)
    os.makedirs(d)
    shutil.copytree("/repo/include", os.path.join(d, "include"))
    return d


def run_check(prop, repo, extra_env=None):
    env = dict(os.environ)
    env.update(extra_env or {})
    env["VERIF_REPO"] = repo
    p = subprocess.run([sys.executable, DRIVER, "check", prop, "--tier", "quick"], stdout=subprocess.PIPE, stderr=subprocess.PIPE, text=True, env=env, cwd=VERIF)
    classes = []
    for line in p.stdout.splitlines():
        m = re.match(r"VIOLATION property=(\S+) replay=(\S+)", line)
        if m:
            try:
                classes.append(json.load(open(m.group(2)))["violation_class"])
            except Exception:
                classes.append("?")
    hits = {}
    try:
        import hashlib
        ev = json.load(open(os.path.join(VERIF, "build", "evidence-alt" + hashlib.md5(repo.encode()).hexdigest()[:6], prop + ".json")))
        hits = ev["coverage"].get("per_class_run_counts", {})
        hits["_runs"] = ev["coverage"].get("runs")
    except Exception:
        pass
    run_check.last_hits = hits
    return p.returncode, classes, p.stdout[-2000:] + p.stderr[-2000:]


def cleanup_alt(repo=None):
    """drop the builds and evidence of one scratch tree (or, with no argument, of all of them)"""
    import hashlib
    pat = "*-alt" + (hashlib.md5(repo.encode()).hexdigest()[:6] if repo else "*")
    for d in glob.glob(os.path.join(VERIF, "build", pat)):
        shutil.rmtree(d, ignore_errors=True)


def mutants(args):
    cat = json.load(open(os.path.join(VERIF, "mutants", "catalogue.json")))["entries"]
    flt = args[0] if args else "*"
    rows = []
    rc = 0
    for e in cat:
        if not fnmatch.fnmatch(e["id"], flt) and not fnmatch.fnmatch(e["property"], flt):
            continue
        d = scratch_copy("mut")
        try:
            f = os.path.join(d, e["file"])
            s = open(f).read()
            edits = e.get("edits") or [{"old": e["old"], "new": e["new"]}]
            if any(s.count(x["old"]) < 1 for x in edits):
                rows.append({"id": e["id"], "result": "STALE", "detail": "old text not found in %s" % e["file"]})
                print("%-45s STALE (text not found)" % e["id"])
                rc = 1
                continue
            for x in edits:
                s = s.replace(x["old"], x["new"], 1)
            open(f, "w").write(s)
            t0 = time.time()
            code, classes, tail = run_check(e["property"], d)
            if e["kind"] == "mutant":
                hit = code == 1 and any(fnmatch.fnmatchcase(c, e["expect"]) for c in classes)
                res = "CAUGHT" if hit else ("CAUGHT-OTHER-CLASS" if code == 1 else "MISSED(exit %d)" % code)
                if not hit:
                    rc = 1
            else:
                res = "QUIET" if code == 0 else "FALSE-ALARM(exit %d)" % code
                if code != 0:
                    rc = 1
            rows.append({"id": e["id"], "property": e["property"], "kind": e["kind"], "expect": e.get("expect"), "exit": code, "classes": classes[:6], "result": res,
                         "wall_s": round(time.time() - t0, 1), "tail": tail[-400:] if res not in ("CAUGHT", "QUIET") else ""})
            print("%-45s %-20s exit=%d %s" % (e["id"], res, code, classes[:3]))
            sys.stdout.flush()
        finally:
            shutil.rmtree(d, ignore_errors=True)
            cleanup_alt(d)
    out = os.path.join(VERIF, "evidence", "selftest_mutants.json")
    prev = {}
    if os.path.exists(out) and flt != "*":
        prev = {r["id"]: r for r in json.load(open(out)).get("rows", [])}
    for r in rows:
        prev[r["id"]] = r
    rows_all = sorted(prev.values(), key=lambda r: r["id"]) if flt != "*" else rows
    json.dump({"rows": rows_all, "caught": sum(1 for r in rows_all if r["result"] == "CAUGHT"), "quiet": sum(1 for r in rows_all if r["result"] == "QUIET"),
               "problems": [r["id"] for r in rows_all if r["result"] not in ("CAUGHT", "QUIET")]}, open(out, "w"), indent=1)
    return rc


def seeded(args):
    flt = args[0] if args else "*"
    rows = []
    rc = 0
    for meta_path in sorted(glob.glob(os.path.join(VERIF, "seeded", "*", "meta.json"))):
        sid = os.path.basename(os.path.dirname(meta_path))
        if not fnmatch.fnmatch(sid, flt):
            continue
        meta = json.load(open(meta_path))
        d = scratch_copy("seed")
        try:
            p = subprocess.run(["git", "apply", "--directory=" + d.lstrip("/"), "--unsafe-paths", os.path.join(os.path.dirname(meta_path), "patch.diff")], cwd="/", stdout=subprocess.PIPE,
                               stderr=subprocess.STDOUT, text=True)
            if p.returncode != 0:
                p = subprocess.run(["patch", "-p1", "-d", d, "-i", os.path.join(os.path.dirname(meta_path), "patch.diff")], stdout=subprocess.PIPE, stderr=subprocess.STDOUT, text=True)
            if p.returncode != 0:
                rows.append({"id": sid, "result": "PATCH-DOES-NOT-APPLY", "detail": p.stdout[-500:]})
                print("%-30s PATCH-DOES-NOT-APPLY" % sid)
                rc = 1
                continue
            t0 = time.time()
            # a change that only a thorough-tier build configuration can see says so in meta.json (check_env: {"VERIF_ALT": "nospecials:40000"}):
            # the quick command is then run with that configuration added, instead of the whole thorough tier
            code, classes, tail = run_check(meta["property"], d, meta.get("check_env"))
            expected_caught = meta.get("expected", "caught") == "caught"
            if expected_caught:
                res = "CAUGHT" if code == 1 else "MISSED(exit %d)" % code
            else:
                res = "QUIET(as documented)" if code == 0 else "exit %d" % code
            if (code == 1) != expected_caught:
                rc = 1
            hits = dict(getattr(run_check, "last_hits", {}))
            total_runs = hits.pop("_runs", None)
            rows.append({"id": sid, "property": meta["property"], "exit": code, "classes": classes[:6], "result": res, "wall_s": round(time.time() - t0, 1),
                         "violating_runs_by_class": dict(sorted(hits.items(), key=lambda kv: -kv[1])[:6]), "runs": total_runs,
                         "tail": tail[-400:] if code not in (0, 1) else ""})
            print("%-30s %-12s exit=%d %s" % (sid, res, code, classes[:3]))
            sys.stdout.flush()
        finally:
            shutil.rmtree(d, ignore_errors=True)
            cleanup_alt(d)
    out = os.path.join(VERIF, "evidence", "selftest_seeded.json")
    prev = {}
    if os.path.exists(out) and flt != "*":
        try:
            prev = {r["id"]: r for r in json.load(open(out)).get("rows", [])}
        except Exception:
            prev = {}
    for r in rows:
        prev[r["id"]] = r
    rows_all = sorted(prev.values(), key=lambda r: r["id"]) if flt != "*" else rows
    json.dump({"rows": rows_all, "caught": sum(1 for r in rows_all if r.get("result") == "CAUGHT"), "problems": [r["id"] for r in rows_all if r.get("result") != "CAUGHT"]},
              open(out, "w"), indent=1)
    return rc


def main(a):
    if not a:
        print(__doc__)
        return 2
    if a[0] == "determinism":
        return determinism(a[1:])
    if a[0] == "mutants":
        return mutants(a[1:])
    if a[0] == "seeded":
        return seeded(a[1:])
    print(__doc__)
    return 2
