#!/usr/bin/env python3
"""Confirm an independently written breaking change before it is kept under /verif/seeded/<id>/.

  confirm_seed.py <id> <worktree> [--property Cxx]

<worktree> is a scratch git worktree of /repo (outside /repo and /verif) in which a sub-agent left the change applied and its
deliverables in <worktree>/_seed/{patch.diff,demo.cpp,notes.md}. This script re-does the three confirmations itself:
  1. patch.diff applies cleanly to a pristine export of /repo HEAD and yields exactly the worktree's include/ tree;
  2. the repository's own test suite, unedited, builds and passes with the change (cmake+ninja in <worktree>/_build, ctest);
  3. the demonstration fails with the change and passes without it (compiled against the worktree's include/ and against /repo/include).
and writes seeded/<id>/{patch.diff,demo.cpp,notes.md,meta.json}. It never touches /repo.
"""
import json
import os
import re
import shutil
import subprocess
import sys
import tempfile

VERIF = os.path.dirname(os.path.dirname(os.path.abspath(__file__)))


def sh(cmd, **kw):
    return subprocess.run(cmd, shell=isinstance(cmd, str), stdout=subprocess.PIPE, stderr=subprocess.STDOUT, text=True, **kw)


def main():
    sid, wt = sys.argv[1], sys.argv[2].rstrip("/")
    prop = sys.argv[sys.argv.index("--property") + 1] if "--property" in sys.argv else sid[:3].upper()
    assert not wt.startswith("/repo") and not wt.startswith("/verif")
    seed = os.path.join(wt, "_seed")
    out = os.path.join(VERIF, "seeded", sid)
    os.makedirs(out, exist_ok=True)
    ran = []
    # 1. the patch is exactly the worktree's change
    r = sh(["git", "-C", wt, "diff", "--", "include"])
    patch = open(os.path.join(seed, "patch.diff")).read()
    def body(t):  # the changed lines themselves; hunk positions and blob ids may differ when /repo has moved on since the patch was written
        return [l for l in t.strip().splitlines() if not l.startswith("@@") and not l.startswith("index ")]
    same = body(r.stdout) == body(patch)
    tmp = tempfile.mkdtemp(prefix="seedchk_", dir="/tmp")
    try:
        sh("git -C /repo archive HEAD include | tar -x -C %s" % tmp)
        a = sh(["git", "apply", "--directory=" + tmp.lstrip("/"), "--unsafe-paths", os.path.join(seed, "patch.diff")], cwd="/")
        applies = a.returncode == 0
        d = sh(["diff", "-r", os.path.join(tmp, "include"), os.path.join(wt, "include")])
        identical = d.returncode == 0
    finally:
        shutil.rmtree(tmp, ignore_errors=True)
    ran.append("patch.diff == `git diff -- include` of the worktree: %s; applies to /repo HEAD: %s; result identical to the worktree's include/: %s" % (same, applies, identical))
    # 2. the repository's suite with the change
    b = sh("cd %s && cmake -G Ninja -S . -B _build -DBUILD_TESTS=ON >/dev/null && cmake --build _build -j16 2>&1 | tail -2 && ctest --test-dir _build -j8 --timeout 900 2>&1 | tail -4" % wt)
    suite_ok = "100% tests passed" in b.stdout
    dt = sh("cd %s/_build/test && ./test_xsimd 2>&1 | tail -4" % wt)
    m = re.search(r"test cases:\s+(\d+)\s+\|\s+(\d+) passed\s+\|\s+(\d+) failed", dt.stdout)
    ran.append("repository test suite with the change (cmake+ninja+ctest in the scratch worktree): %s; doctest: %s" % ("passed" if suite_ok else "FAILED", m.group(0) if m else dt.stdout[-200:]))
    # 3. the demonstration, both ways
    demo = os.path.join(seed, "demo.cpp")
    head = open(demo).read().splitlines()[:20]
    first = next((l for l in head if "g++" in l), head[0] if head else "")
    extra = " ".join(re.findall(r"(?<!\S)(-D\S+|-m(?!arch)\S+|-pthread|-l\S+|-Wl,\S+|-f[a-z][a-z-]*(?:=\S+)?|-O[0-3s])", first))
    std = re.search(r"-std=(\S+)", first)
    std = std.group(1) if std else "c++14"
    march = "-march=native" if "-march=native" in first else ""  # some demos are deliberately built for baseline x86-64
    if "-O" not in extra:
        extra += " -O1"
    res = {}
    for label, inc in (("with_change", os.path.join(wt, "include")), ("without_change", "/repo/include")):
        exe = os.path.join("/tmp", "seed_demo_%s_%s" % (sid, label))
        c = sh("g++ -std=%s %s %s -I %s %s -o %s" % (std, march, extra, inc, demo, exe))
        if c.returncode != 0:
            res[label] = "does not compile: " + c.stdout[-300:]
            continue
        try:
            p = subprocess.run(["timeout", "120", exe], stdout=subprocess.PIPE, stderr=subprocess.STDOUT, text=True)
            res[label] = "exit %d, last line: %s" % (p.returncode, (p.stdout.strip().splitlines() or [""])[-1][:160])
        finally:
            os.remove(exe)
    ran.append("demo.cpp (g++ -std=%s %s %s): with the change -> %s; without -> %s" % (std, march, extra, res["with_change"], res["without_change"]))
    demo_ok = res["with_change"].startswith("exit ") and not res["with_change"].startswith("exit 0") and res["without_change"].startswith("exit 0")
    confirmed = same and applies and identical and suite_ok and demo_ok
    for f in ("patch.diff", "demo.cpp", "notes.md"):
        shutil.copy(os.path.join(seed, f), os.path.join(out, f))
    meta_path = os.path.join(out, "meta.json")
    meta = json.load(open(meta_path)) if os.path.exists(meta_path) else {}
    meta.update({"id": sid, "property": prop, "origin": "independent sub-agent given only the property text and a scratch worktree",
                 "confirmed": "yes" if confirmed else "NO", "what_i_ran": ran})
    meta.setdefault("what", "")
    meta.setdefault("needs_to_manifest", "")
    meta.setdefault("expected", "caught")
    json.dump(meta, open(meta_path, "w"), indent=1)
    print("\n".join(ran))
    print("confirmed:", confirmed)
    return 0 if confirmed else 1


if __name__ == "__main__":
    sys.exit(main())
