#!/usr/bin/env python3
"""Write the task description for an independent breakage author (a fresh sub-agent) into its scratch worktree.

  make_seed_task.py <id> <worktree> "<focus hint>"

The sub-agent gets ONLY the text of the property and its own worktree - nothing from /verif - so that what it writes is independent of
what the checks can already detect. The confirmation of its deliverables is done by bin/confirm_seed.py.
"""
import json
import os
import sys

VERIF = os.path.dirname(os.path.dirname(os.path.abspath(__file__)))


def main():
    sid, wt, focus = sys.argv[1], sys.argv[2].rstrip("/"), sys.argv[3]
    props = {}
    for l in open(os.path.join(VERIF, "properties.jsonl")):
        d = json.loads(l)
        props[d["id"]] = d
    p = props[sid[:3].upper()]
    txt = f"""You are helping to evaluate a verification tool for the C++ header-only SIMD library xsimd (xtensor-stack/xsimd). Your job is to play the role of a developer who introduces a subtle REGRESSION into the library. You work ONLY inside your own scratch git worktree: {wt}  (a checkout of the library; headers under include/xsimd, tests under test/). Do NOT read, list or touch /repo or /verif or any other /tmp/wt_* directory - your result must be independent of everything outside your worktree.

THE PROPERTY you must break (this is the full specification you get):

  Title: {p['title']}
  Statement: {p['statement']}
  Quantified over: {p['quantifier']['text']}

YOUR TASK: make a small, realistic source change to the library headers in {wt}/include (the kind of edit that could plausibly come from a refactoring, an optimisation, a "clean-up" or a new fast path - a few lines to a few dozen lines) such that:
  1. the library still compiles and the EXISTING test suite still passes completely, unedited, with your change;
  2. the property above is genuinely violated by the changed code (a real user-visible misbehaviour, not a style matter);
  3. the violation needs something SPECIFIC to manifest - an unusual input, a particular configuration/ISA/element type, a fault or failure at a particular point, a multi-step sequence of operations, a particular memory layout, or two cooperating sites that each look fine alone. It must NOT be something ordinary use would expose at once, and not something the existing tests hit.
  4. you provide a small stand-alone demonstration program (demo.cpp, C++14, may be compiled with extra -D/-m flags you specify) that exits 0 / prints PASS on the ORIGINAL code and exits non-zero / prints FAIL on the CHANGED code, deterministically (and within a minute).

Focus hint (to diversify from other people's attempts): {focus}

Notes about the checkout: it is xsimd 13.2.0 plus a few small commits. Some headers contain lines guarded by `#ifdef XSIMD_VERIF` and calls to a macro `XSIMD_VERIF_LOOP_TICK()` (which expands to nothing unless XSIMD_VERIF is defined): leave those guarded hooks intact and keep them working (do not remove or move them out of the loops they are in); if you add a new loop you need not add a tick to it. With XSIMD_VERIF defined, xsimd_cpuid.hpp lets a harness install a `xsimd::verif::cpu_source` (simulated CPUID/XGETBV); you may use that in your demo if it helps (compile the demo with -DXSIMD_VERIF), read the header to see how.

How to build and run the existing test suite inside your worktree (takes several minutes; use at most 4 parallel build jobs because other people share the machine):
    cd {wt} && cmake -G Ninja -S . -B _build -DBUILD_TESTS=ON >/dev/null && cmake --build _build -j4 2>&1 | tail -3 && ctest --test-dir _build -j8 --timeout 900 2>&1 | tail -5
The machine is an x86-64 with AVX-512 (the test build uses -march=native). There is no network. g++ 12 and clang 14 are available. Compile demos with e.g.  g++ -std=c++14 -O1 -march=native -I {wt}/include demo.cpp -o demo  (add -DXSIMD_WITH_EMULATED=1 or other flags if your demo needs them, and say so).

DELIVERABLES - put them in {wt}/_seed/ :
  - patch.diff : output of `git -C {wt} diff -- include` (ONLY library header changes; do not change tests)
  - demo.cpp   : the demonstration; first comment line must give the exact compile command
  - notes.md   : what you changed and why it looks innocent; which clause of the property breaks; exactly what is needed for it to manifest; what you ran (test-suite result WITH the change: number of tests passed/failed; demo result with and without the change).
Verify everything yourself before finishing: (a) with your change applied, full test suite passes; (b) demo FAILS with the change; (c) `git stash` / revert the change, demo PASSES; then re-apply the change so the worktree ends with the change applied. Do not commit anything. Keep the _build directory (I will remove it).

In your final message, report briefly: the one-paragraph description of the change, what it needs to manifest, and the verification results (a), (b), (c).
"""
    open(os.path.join(wt, "TASK.md"), "w").write(txt)
    print("wrote", os.path.join(wt, "TASK.md"))


if __name__ == "__main__":
    main()
