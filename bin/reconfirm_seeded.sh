#!/bin/bash
# Re-confirm seeded changes whose scratch worktree no longer exists: fresh worktree of /repo HEAD, apply the stored patch, then bin/confirm_seed.py.
# usage: reconfirm_seeded.sh <id>...
set -u
for id in "$@"; do
  wt=/tmp/wt_re_$id
  git -C /repo worktree remove --force $wt 2>/dev/null
  git -C /repo worktree add -q --detach $wt HEAD || { echo "$id: cannot create worktree"; continue; }
  if ! git -C $wt apply /verif/seeded/$id/patch.diff; then echo "$id: patch does not apply"; git -C /repo worktree remove --force $wt; continue; fi
  mkdir -p $wt/_seed; cp /verif/seeded/$id/patch.diff /verif/seeded/$id/demo.cpp /verif/seeded/$id/notes.md $wt/_seed/
  echo "=== $id"; python3 /verif/bin/confirm_seed.py $id $wt
  git -C /repo worktree remove --force $wt; git -C /repo worktree prune
done
