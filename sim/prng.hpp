// simcore: the one PRNG every simulated choice is drawn from.
// SplitMix64 seeds xoshiro256**; a run's generator is a pure function of (VERIF_SEED, check id, run index).
#pragma once
#include <cstdint>
#include <cstddef>
#include <initializer_list>
#include <vector>

namespace sim
{
    inline uint64_t splitmix64(uint64_t& s)
    {
        uint64_t z = (s += 0x9e3779b97f4a7c15ull);
        z = (z ^ (z >> 30)) * 0xbf58476d1ce4e5b9ull;
        z = (z ^ (z >> 27)) * 0x94d049bb133111ebull;
        return z ^ (z >> 31);
    }

    inline uint64_t mix3(uint64_t a, uint64_t b, uint64_t c)
    {
        uint64_t s = a;
        uint64_t x = splitmix64(s);
        s = x ^ (b * 0xd6e8feb86659fd93ull);
        x = splitmix64(s);
        s = x ^ (c * 0xca5a826395121157ull);
        return splitmix64(s);
    }

    struct Rng
    {
        uint64_t s[4];
        uint64_t draws = 0;
        explicit Rng(uint64_t seed = 1) { reseed(seed); }
        void reseed(uint64_t seed)
        {
            uint64_t x = seed;
            for (int i = 0; i < 4; ++i)
                s[i] = splitmix64(x);
            draws = 0;
        }
        static uint64_t rotl(uint64_t x, int k) { return (x << k) | (x >> (64 - k)); }
        uint64_t next()
        {
            ++draws;
            const uint64_t result = rotl(s[1] * 5, 7) * 9;
            const uint64_t t = s[1] << 17;
            s[2] ^= s[0];
            s[3] ^= s[1];
            s[1] ^= s[2];
            s[0] ^= s[3];
            s[2] ^= t;
            s[3] = rotl(s[3], 45);
            return result;
        }
        uint32_t next32() { return (uint32_t)(next() >> 32); }
        // uniform in [0, n), n > 0 (multiply-shift; bias < 2^-32 for the n used here, and deterministic)
        uint64_t below(uint64_t n)
        {
            if (n <= 1)
                return 0;
            if (n <= 0xffffffffull)
                return ((uint64_t)next32() * n) >> 32;
            return next() % n;
        }
        // uniform in [lo, hi]
        int64_t range(int64_t lo, int64_t hi) { return lo + (int64_t)below((uint64_t)(hi - lo) + 1); }
        bool coin() { return next() >> 63; }
        // true with probability num/den
        bool chance(uint32_t num, uint32_t den) { return below(den) < num; }
        double unit() { return (next() >> 11) * (1.0 / 9007199254740992.0); }
        bool bernoulli(double p) { return unit() < p; }
        template <class T>
        const T& pick(const std::vector<T>& v) { return v[below(v.size())]; }
        template <class T>
        T pick(std::initializer_list<T> l) { return *(l.begin() + below(l.size())); }
    };
}
