// simcore: event log + determinism hash, counters/reach probes, distinct-state sets,
// ddmin shrinking, crash containment and the generic worker main loop shared by all harnesses.
//
// A harness H provides:
//   static const char* id();                                  "C15"
//   struct Plan;                                              generated plan: setup + ops, faults attached to ops
//   void configure(const sim::Params&);                       tier parameters
//   Plan generate(sim::Rng&);                                 pure function of the generator state
//   sim::Outcome execute(const Plan&, sim::Log&);             run real code + reference model in lock step
//   sim::json::Value to_json(const Plan&); Plan from_json(const sim::json::Value&);
//   size_t n_ops(const Plan&); Plan without_ops(const Plan&, const std::vector<bool>& keep);
//   std::vector<Plan> simpler(const Plan&);                   one-step argument simplifications
//   (optional) void startup_selftest();                       throws on an environment that would make the check vacuous
#pragma once
#include "json.hpp"
#include "prng.hpp"

#include <algorithm>
#include <csetjmp>
#include <csignal>
#include <cstdarg>
#include <cstdio>
#include <cstring>
#include <map>
#include <set>
#include <stdexcept>
#include <string>
#include <sys/wait.h>
#include <unistd.h>
#include <unordered_set>
#include <vector>

namespace sim
{
    // ---------- counters (fault fired / oracle clause evaluated / reach probes) ----------
    struct Counter;
    inline std::vector<Counter*>& counter_registry()
    {
        static std::vector<Counter*> r;
        return r;
    }
    struct Counter
    {
        const char* group; // "fault_configured" | "fault_fired" | "clause" | "probe" | "sim"
        std::string name;
        uint64_t v = 0;
        Counter(const char* g, const std::string& n)
            : group(g)
            , name(n)
        {
            counter_registry().push_back(this);
        }
        void operator++() { ++v; }
        void operator++(int) { ++v; }
        void operator+=(uint64_t d) { v += d; }
    };
    // dynamically named counters (per architecture, per loop site, ...)
    inline Counter& dyn_counter(const char* group, const std::string& name)
    {
        static std::map<std::string, Counter*> m;
        std::string key = std::string(group) + "\x1f" + name;
        auto it = m.find(key);
        if (it != m.end())
            return *it->second;
        Counter* c = new Counter(group, name);
        m.emplace(key, c);
        return *c;
    }

    // ---------- distinct-state measure ----------
    struct DistinctSet
    {
        std::string name;
        std::unordered_set<uint64_t> set;
        size_t cap;
        bool saturated = false;
        explicit DistinctSet(const std::string& n, size_t c = 2u << 20);
        void add(uint64_t h)
        {
            if (set.size() < cap)
                set.insert(h);
            else if (!set.count(h))
                saturated = true;
        }
    };
    inline std::vector<DistinctSet*>& distinct_registry()
    {
        static std::vector<DistinctSet*> r;
        return r;
    }
    inline DistinctSet::DistinctSet(const std::string& n, size_t c)
        : name(n)
        , cap(c)
    {
        distinct_registry().push_back(this);
    }

    inline uint64_t fnv1a(const void* data, size_t n, uint64_t h = 0xcbf29ce484222325ull)
    {
        const unsigned char* p = (const unsigned char*)data;
        for (size_t i = 0; i < n; ++i)
        {
            h ^= p[i];
            h *= 0x100000001b3ull;
        }
        return h;
    }
    inline uint64_t fnv1a_str(const std::string& s, uint64_t h = 0xcbf29ce484222325ull) { return fnv1a(s.data(), s.size(), h); }
    // combine two words; both are avalanched first so that correlated low bits cannot cancel
    inline uint64_t hash_u64(uint64_t h, uint64_t v)
    {
        uint64_t a = h + 0x9e3779b97f4a7c15ull, b = v ^ 0xd6e8feb86659fd93ull;
        return splitmix64(a) ^ (splitmix64(b) * 0xca5a826395121157ull + 0x2545f4914f6cdd1dull);
    }

    // ---------- event log ----------
    // Every executed op appends its observable outcome. The hash is the run's identity for the
    // determinism gate; text is kept only in replay/verbose mode. The log has no access to the PRNG.
    struct Log
    {
        uint64_t h = 0xcbf29ce484222325ull;
        uint64_t n_events = 0;
        bool keep_text = false;
        std::vector<std::string> text;
        void rec(const char* tag, uint64_t a = 0, uint64_t b = 0, uint64_t c = 0, uint64_t d = 0)
        {
            h = fnv1a(tag, strlen(tag), h);
            uint64_t v[4] = { a, b, c, d };
            h = fnv1a(v, sizeof v, h);
            ++n_events;
            if (keep_text)
            {
                char buf[256];
                snprintf(buf, sizeof buf, "#%llu %s %llx %llx %llx %llx", (unsigned long long)n_events, tag,
                         (unsigned long long)a, (unsigned long long)b, (unsigned long long)c, (unsigned long long)d);
                text.push_back(buf);
            }
        }
        void note(const std::string& s)
        {
            h = fnv1a_str(s, h);
            ++n_events;
            if (keep_text)
                text.push_back("#" + std::to_string(n_events) + " " + s);
        }
    };

    // ---------- outcome of one run ----------
    struct Outcome
    {
        std::vector<std::string> classes; // violation classes in order of first occurrence (deduplicated)
        std::vector<std::string> details; // human-readable detail per class
        uint64_t ops_executed = 0;
        void violate(const std::string& cls, const std::string& detail)
        {
            for (auto& c : classes)
                if (c == cls)
                    return;
            classes.push_back(cls);
            details.push_back(detail);
        }
        bool has(const std::string& cls) const
        {
            return std::find(classes.begin(), classes.end(), cls) != classes.end();
        }
        bool ok() const { return classes.empty(); }
    };

    inline std::string fmt(const char* f, ...)
    {
        char buf[1024];
        va_list ap;
        va_start(ap, f);
        vsnprintf(buf, sizeof buf, f, ap);
        va_end(ap);
        return buf;
    }

    // ---------- tier parameters ----------
    struct Params
    {
        std::map<std::string, std::string> kv;
        uint64_t u64(const std::string& k, uint64_t d) const
        {
            auto it = kv.find(k);
            return it == kv.end() ? d : strtoull(it->second.c_str(), nullptr, 0);
        }
        double dbl(const std::string& k, double d) const
        {
            auto it = kv.find(k);
            return it == kv.end() ? d : strtod(it->second.c_str(), nullptr);
        }
        std::string str(const std::string& k, const std::string& d) const
        {
            auto it = kv.find(k);
            return it == kv.end() ? d : it->second;
        }
    };

    // ---------- crash containment: report the run that was executing, async-signal-safely ----------
    struct CrashState
    {
        volatile uint64_t run = 0;
        volatile int phase = 0; // 0 idle, 1 generate, 2 execute, 3 shrink
        const char* check = "";
    };
    inline CrashState& crash_state()
    {
        static CrashState s;
        return s;
    }
    // a candidate plan tried during shrinking may crash the process under test (e.g. std::vector writing through a null pointer a broken
    // allocator returned): the candidate then simply "does not reproduce the class", shrinking stops, the violation is reported with the
    // smallest plan found so far and the worker asks to be restarted, because its state can no longer be trusted.
    struct ShrinkGuard
    {
        sigjmp_buf jb;
        volatile sig_atomic_t armed = 0;
        volatile sig_atomic_t crashed = 0;
    };
    inline ShrinkGuard& shrink_guard()
    {
        static ShrinkGuard g;
        return g;
    }
    inline void crash_handler(int sig)
    {
        if (crash_state().phase == 3 && shrink_guard().armed)
        {
            shrink_guard().armed = 0;
            shrink_guard().crashed = 1;
            siglongjmp(shrink_guard().jb, 1);
        }
        char buf[200];
        int n = snprintf(buf, sizeof buf, "\n{\"crash\":{\"check\":\"%s\",\"run\":%llu,\"phase\":%d,\"signal\":%d}}\n",
                         crash_state().check, (unsigned long long)crash_state().run, crash_state().phase, sig);
        ssize_t w = write(1, buf, (size_t)n);
        (void)w;
        _exit(70);
    }
    inline void install_crash_handlers()
    {
        // an alternate signal stack: a stack overflow (runaway recursion in the code under test) must still be reported, not die silently
        static char altstack[1 << 16];
        stack_t ss;
        memset(&ss, 0, sizeof ss);
        ss.ss_sp = altstack;
        ss.ss_size = sizeof altstack;
        sigaltstack(&ss, nullptr);
        struct sigaction sa;
        memset(&sa, 0, sizeof sa);
        sa.sa_handler = crash_handler;
        sa.sa_flags = SA_NODEFER | SA_ONSTACK; // the handler may leave through siglongjmp during shrinking
        sigemptyset(&sa.sa_mask);
        for (int s : { SIGSEGV, SIGBUS, SIGILL, SIGFPE, SIGABRT })
            sigaction(s, &sa, nullptr);
    }

    // ---------- pristine execution ----------
    // A worker process executes thousands of plans back to back, so any once-per-process state inside the code under test (a function-local
    // static cache, say) is initialised by the first plan and then stale for all later ones - something no real process, which boots once, can
    // observe. Harnesses whose simulated environment includes "process start" (C15) opt in to confirming, shrinking and reporting every
    // violation candidate with executions in pristine processes: a zygote forked before any plan ran forks one child per requested plan.
    struct PristineResult
    {
        bool ok = false; // the request was served (false: zygote gone)
        bool crashed = false;
        int signal = 0;
        Outcome o;
        std::string hash;
        std::vector<std::string> log;
    };
    inline bool read_all(int fd, void* buf, size_t n)
    {
        char* p = (char*)buf;
        while (n)
        {
            ssize_t r = read(fd, p, n);
            if (r <= 0)
                return false;
            p += r;
            n -= (size_t)r;
        }
        return true;
    }
    inline bool write_all(int fd, const void* buf, size_t n)
    {
        const char* p = (const char*)buf;
        while (n)
        {
            ssize_t r = write(fd, p, n);
            if (r <= 0)
                return false;
            p += r;
            n -= (size_t)r;
        }
        return true;
    }
    inline bool send_msg(int fd, const std::string& s)
    {
        uint32_t len = (uint32_t)s.size();
        return write_all(fd, &len, 4) && write_all(fd, s.data(), s.size());
    }
    inline bool recv_msg(int fd, std::string& s)
    {
        uint32_t len = 0;
        if (!read_all(fd, &len, 4))
            return false;
        s.resize(len);
        return len == 0 || read_all(fd, &s[0], len);
    }
    template <class H>
    struct Zygote
    {
        int to_fd = -1, from_fd = -1;
        pid_t pid = -1;
        uint64_t served = 0;
        bool start(H& h)
        {
            int a[2], b[2];
            if (pipe(a) != 0 || pipe(b) != 0)
                return false;
            fflush(stdout);
            pid = fork();
            if (pid < 0)
                return false;
            if (pid == 0)
            {
                close(a[1]);
                close(b[0]);
                serve(h, a[0], b[1]);
                _exit(0);
            }
            close(a[0]);
            close(b[1]);
            to_fd = a[1];
            from_fd = b[0];
            return true;
        }
        static void serve(H& h, int in, int out)
        {
            std::string text;
            while (recv_msg(in, text))
            {
                int c[2];
                if (pipe(c) != 0)
                    break;
                pid_t g = fork();
                if (g == 0)
                {
                    close(c[0]);
                    std::string reply;
                    try
                    {
                        typename H::Plan plan = h.from_json(json::parse(text));
                        Log l;
                        l.keep_text = true;
                        Outcome o = h.execute(plan, l);
                        json::Value r = json::Value::object();
                        json::Value cl = json::Value::array(), dt = json::Value::array(), lg = json::Value::array();
                        for (auto& x : o.classes)
                            cl.push(x);
                        for (auto& x : o.details)
                            dt.push(x);
                        for (auto& x : l.text)
                            lg.push(x);
                        r.set("classes", cl).set("details", dt).set("hash", json::hex64(l.h)).set("log", lg).set("ops", (unsigned long long)o.ops_executed);
                        reply = json::dump(r);
                    }
                    catch (const std::exception& e)
                    {
                        reply = std::string("{\"error\":") + json::dump(json::Value(std::string(e.what()))) + "}";
                    }
                    send_msg(c[1], reply);
                    _exit(0);
                }
                close(c[1]);
                std::string reply;
                bool got = recv_msg(c[0], reply);
                close(c[0]);
                int st = 0;
                waitpid(g, &st, 0);
                if (!got || WIFSIGNALED(st))
                    reply = "{\"crash\":" + std::to_string(WIFSIGNALED(st) ? WTERMSIG(st) : 0) + "}";
                if (!send_msg(out, reply))
                    break;
            }
        }
        PristineResult run(H& h, const typename H::Plan& plan)
        {
            PristineResult r;
            std::string reply;
            if (to_fd < 0 || !send_msg(to_fd, json::dump(h.to_json(plan))) || !recv_msg(from_fd, reply))
                return r;
            ++served;
            json::Value v = json::parse(reply);
            if (v.has("error"))
                return r;
            r.ok = true;
            if (v.has("crash"))
            {
                r.crashed = true;
                r.signal = (int)v.at("crash").as_u64();
                r.o.violate(std::string(H::id()) + "/crash(signal " + std::to_string(r.signal) + ")", "the process under test died while executing the plan");
                return r;
            }
            for (size_t i = 0; i < v.at("classes").a.size(); ++i)
                r.o.violate(v.at("classes").a[i].as_string(), v.at("details").a[i].as_string());
            r.o.ops_executed = v.get_u64("ops", 0);
            r.hash = v.get_str("hash", "");
            for (auto& x : v.at("log").a)
                r.log.push_back(x.as_string());
            return r;
        }
        void stop()
        {
            if (to_fd >= 0)
                close(to_fd);
            if (from_fd >= 0)
                close(from_fd);
            to_fd = from_fd = -1;
            if (pid > 0)
                waitpid(pid, nullptr, 0);
            pid = -1;
        }
    };

    // ---------- shrinking: ddmin over ops, then greedy one-step simplifications ----------
    template <class H>
    typename H::Plan shrink(H& h, const typename H::Plan& plan0, const std::string& target, uint64_t& executions, uint64_t budget = 3000, Zygote<H>* zy = nullptr)
    {
        using Plan = typename H::Plan;
        auto fails = [&](const Plan& p) -> bool
        {
            if (shrink_guard().crashed)
                return false;
            ++executions;
            if (zy)
            {
                PristineResult r = zy->run(h, p);
                return r.ok && r.o.has(target);
            }
            if (sigsetjmp(shrink_guard().jb, 1) != 0)
                return false; // the candidate crashed the process under test: not the class we are minimising
            shrink_guard().armed = 1;
            Log l;
            Outcome o = h.execute(p, l);
            shrink_guard().armed = 0;
            return o.has(target);
        };
        Plan cur = plan0;
        // ddmin on the op list
        size_t n = h.n_ops(cur);
        size_t gran = 2;
        while (n >= 2 && executions < budget && !shrink_guard().crashed)
        {
            size_t chunk = (n + gran - 1) / gran;
            bool reduced = false;
            for (size_t start = 0; start < n && executions < budget; start += chunk)
            {
                // try the complement of [start, start+chunk)
                std::vector<bool> keep(n, true);
                for (size_t k = start; k < std::min(n, start + chunk); ++k)
                    keep[k] = false;
                Plan cand = h.without_ops(cur, keep);
                if (h.n_ops(cand) < n && fails(cand))
                {
                    cur = cand;
                    n = h.n_ops(cur);
                    gran = std::max<size_t>(gran - 1, 2);
                    reduced = true;
                    break;
                }
            }
            if (!reduced)
            {
                if (chunk <= 1)
                    break;
                gran = std::min(n, gran * 2);
            }
        }
        // try removing single ops once more (cheap, catches leftovers)
        for (size_t k = 0; k < h.n_ops(cur) && h.n_ops(cur) > 1 && executions < budget && !shrink_guard().crashed;)
        {
            std::vector<bool> keep(h.n_ops(cur), true);
            keep[k] = false;
            Plan cand = h.without_ops(cur, keep);
            if (fails(cand))
                cur = cand;
            else
                ++k;
        }
        // greedy argument simplification to a fixpoint
        bool progress = true;
        while (progress && executions < budget && !shrink_guard().crashed)
        {
            progress = false;
            std::vector<Plan> cands = h.simpler(cur);
            for (auto& c : cands)
            {
                if (executions >= budget)
                    break;
                if (fails(c))
                {
                    cur = c;
                    progress = true;
                    break;
                }
            }
        }
        return cur;
    }

    inline uint64_t run_seed(uint64_t verif_seed, const char* check_id, uint64_t run)
    {
        return mix3(verif_seed, fnv1a(check_id, strlen(check_id)), run);
    }

    inline json::Value report_json(uint64_t runs, uint64_t ops, uint64_t events)
    {
        json::Value rep = json::Value::object();
        rep.set("runs", (unsigned long long)runs);
        rep.set("ops", (unsigned long long)ops);
        rep.set("events", (unsigned long long)events);
        json::Value counters = json::Value::object();
        std::map<std::string, std::map<std::string, uint64_t>> grouped;
        for (Counter* c : counter_registry())
            grouped[c->group][c->name] += c->v;
        for (auto& g : grouped)
        {
            json::Value o = json::Value::object();
            for (auto& kv : g.second)
                o.set(kv.first, (unsigned long long)kv.second);
            counters.set(g.first, o);
        }
        rep.set("counters", counters);
        return rep;
    }

    inline void write_distinct(const std::string& prefix)
    {
        for (DistinctSet* d : distinct_registry())
        {
            std::string path = prefix + "." + d->name + ".bin";
            FILE* f = fopen(path.c_str(), "wb");
            if (!f)
                continue;
            std::vector<uint64_t> v(d->set.begin(), d->set.end());
            std::sort(v.begin(), v.end());
            if (!v.empty())
                fwrite(v.data(), 8, v.size(), f);
            fclose(f);
        }
    }

    // ---------- worker: executes plans, gates + shrinks + reports violations ----------
    template <class H>
    struct Worker
    {
        H& h;
        Params params;
        uint64_t seed = 0;
        uint64_t max_report = 3;
        uint64_t samples_wanted = 0;
        bool want_hashes = false;
        uint64_t runs = 0, ops = 0, events = 0, violations = 0, nondeterministic = 0;
        std::map<std::string, uint64_t> per_class;
        std::map<std::string, uint64_t> artifacts; // candidates that pristine processes did not confirm (state carried between simulated lifetimes)
        Zygote<H>* zygote = nullptr;
        json::Value sample_list = json::Value::array();

        explicit Worker(H& hh)
            : h(hh)
        {
        }

        // regen(): rebuilds the plan from its source (seed or enumeration index) for the determinism gate
        template <class Regen>
        void process(const typename H::Plan& plan, uint64_t r, uint64_t rs, Regen regen)
        {
            crash_state().run = r;
            crash_state().phase = 2;
            Log l;
            Outcome o = h.execute(plan, l);
            crash_state().phase = 0;
            ++runs;
            ops += o.ops_executed;
            events += l.n_events;
            if (want_hashes)
                printf("{\"hash\":{\"run\":%llu,\"h\":\"%016llx\"}}\n", (unsigned long long)r, (unsigned long long)l.h);
            if (sample_list.a.size() < samples_wanted)
                sample_list.push(h.to_json(plan));
            if (o.ok())
                return;
            ++violations;
            for (size_t ci = 0; ci < o.classes.size(); ++ci)
            {
                const std::string& cls = o.classes[ci];
                uint64_t seen = per_class[cls]++;
                if (seen >= max_report)
                    continue;
                typename H::Plan small = plan;
                bool det = false;
                bool poisoned = false;
                uint64_t execs = 0;
                Log l3;
                l3.keep_text = true;
                Outcome o3;
                if (zygote)
                {
                    // pristine-process path: confirm, shrink and observe in processes that never executed another plan
                    auto drop = [&]()
                    {
                        ++artifacts[cls];
                        if (--per_class[cls] == 0)
                            per_class.erase(cls);
                    };
                    PristineResult p1 = zygote->run(h, regen());
                    if (!p1.ok)
                        throw std::runtime_error("pristine executor is gone");
                    if (!p1.o.has(cls))
                    {
                        drop(); // seen only in a process that had already lived other simulated lifetimes
                        continue;
                    }
                    PristineResult p2 = zygote->run(h, plan);
                    det = p2.ok && p2.hash == p1.hash && p2.o.has(cls);
                    if (!det)
                        ++nondeterministic;
                    if (det)
                        small = shrink(h, plan, cls, execs, h.shrink_budget(), zygote);
                    if (det && h.spans_several_lifetimes(small))
                    {
                        drop(); // needs state carried across a simulated process start: not observable by any real process
                        continue;
                    }
                    PristineResult p3 = zygote->run(h, small);
                    o3 = p3.o;
                    l3.text = p3.log;
                }
                else
                {
                    // gate (a): rebuild the plan from its source and execute again in-process -> same hash, same class
                    typename H::Plan plan2 = regen();
                    Log l2;
                    Outcome o2 = h.execute(plan2, l2);
                    det = (l2.h == l.h) && o2.has(cls);
                    if (!det && h.real_clock_class(cls) && !o2.has(cls))
                    {
                        // the one kind of verdict that reads a real clock (a CPU-time backstop): a genuine stall is a function of the plan and shows again;
                        // one that does not was the host (VM pause, steal time) charging time to the call. Counted, not reported.
                        ++artifacts[cls];
                        if (--per_class[cls] == 0)
                            per_class.erase(cls);
                        continue;
                    }
                    if (!det)
                        ++nondeterministic;
                    crash_state().phase = 3;
                    small = det ? shrink(h, plan, cls, execs, h.real_clock_class(cls) ? std::min<uint64_t>(h.shrink_budget(), 48) : h.shrink_budget()) : plan; // a real-clock verdict costs real time per execution
                    crash_state().phase = 0;
                    poisoned = shrink_guard().crashed != 0;
                    if (!poisoned)
                        o3 = h.execute(small, l3);
                    else
                        o3.violate(cls, o.details[ci] + " (a shrink candidate crashed the process under test; minimisation stopped early)");
                }
                json::Value v = json::Value::object();
                v.set("property", H::id());
                v.set("violation_class", cls);
                v.set("detail", o.details[ci]);
                v.set("verif_seed", (unsigned long long)seed);
                v.set("run", (unsigned long long)r);
                v.set("run_seed", json::hex64(rs));
                v.set("deterministic_in_process", det);
                v.set("log_hash", json::hex64(l.h));
                v.set("minimised_from_ops", (unsigned long long)h.n_ops(plan));
                v.set("minimised_to_ops", (unsigned long long)h.n_ops(small));
                v.set("shrink_executions", (unsigned long long)execs);
                json::Value pj = json::Value::object();
                for (auto& kv : params.kv)
                    pj.set(kv.first, kv.second);
                v.set("params", pj);
                v.set("plan", h.to_json(small));
                v.set("original_plan", h.to_json(plan));
                json::Value ob = json::Value::array();
                for (auto& t : l3.text)
                    ob.push(t);
                v.set("observed_log", ob);
                json::Value od = json::Value::array();
                for (size_t k = 0; k < o3.classes.size(); ++k)
                    od.push(o3.classes[k] + ": " + o3.details[k]);
                v.set("observed", od);
                json::Value line = json::Value::object();
                line.set("violation", v);
                printf("%s\n", json::dump(line).c_str());
                fflush(stdout);
                if (poisoned)
                {
                    // state of this process can no longer be trusted: report what was done and ask the driver for a fresh worker
                    finish(distinct_prefix_for_restart);
                    printf("{\"restart\":{\"run\":%llu}}\n", (unsigned long long)r);
                    fflush(stdout);
                    _exit(75);
                }
            }
        }
        std::string distinct_prefix_for_restart;

        void finish(const std::string& distinct_prefix)
        {
            json::Value rep = report_json(runs, ops, events);
            rep.set("violating_runs", (unsigned long long)violations);
            rep.set("nondeterministic", (unsigned long long)nondeterministic);
            json::Value pc = json::Value::object();
            for (auto& kv : per_class)
                pc.set(kv.first, (unsigned long long)kv.second);
            rep.set("per_class", pc);
            json::Value ar = json::Value::object();
            for (auto& kv : artifacts)
                ar.set(kv.first, (unsigned long long)kv.second);
            rep.set("artifacts", ar);
            rep.set("samples", sample_list);
            json::Value ds = json::Value::object();
            for (DistinctSet* d : distinct_registry())
            {
                json::Value o = json::Value::object();
                o.set("count", (unsigned long long)d->set.size()).set("saturated", d->saturated);
                ds.set(d->name, o);
            }
            rep.set("distinct", ds);
            h.extra_report(rep);
            if (!distinct_prefix.empty())
                write_distinct(distinct_prefix);
            json::Value line = json::Value::object();
            line.set("report", rep);
            printf("%s\n", json::dump(line).c_str());
            fflush(stdout);
        }
    };

    struct Args
    {
        std::string cmd, file, distinct_prefix;
        uint64_t seed = 1, first = 0, count = 0, stride = 1, offset = 0, samples = 0, run_index = 0, max_report = 3;
        bool want_hashes = false;
        Params params;
        Args(int argc, char** argv)
        {
            cmd = argc > 1 ? argv[1] : "";
            for (int i = 2; i < argc; ++i)
            {
                std::string a = argv[i];
                auto nextu = [&]() -> uint64_t
                { return i + 1 < argc ? strtoull(argv[++i], nullptr, 0) : 0; };
                if (a == "--seed")
                    seed = nextu();
                else if (a == "--first")
                    first = nextu();
                else if (a == "--count")
                    count = nextu();
                else if (a == "--stride")
                    stride = nextu();
                else if (a == "--offset")
                    offset = nextu();
                else if (a == "--samples")
                    samples = nextu();
                else if (a == "--run")
                    run_index = nextu();
                else if (a == "--max-report")
                    max_report = nextu();
                else if (a == "--hashes")
                    want_hashes = true;
                else if (a == "--distinct" && i + 1 < argc)
                    distinct_prefix = argv[++i];
                else if (a == "-p" && i + 1 < argc)
                {
                    std::string kv = argv[++i];
                    size_t eq = kv.find('=');
                    if (eq != std::string::npos)
                        params.kv[kv.substr(0, eq)] = kv.substr(eq + 1);
                }
                else if (file.empty())
                    file = a;
            }
        }
    };

    // ---------- generic worker main ----------
    // harness run  --seed S --first A --count N --stride K --offset I [--samples M] [--distinct PREFIX] [--hashes] [-p k=v ...]
    // harness replay FILE
    // harness gen  --seed S --run R [-p k=v ...]
    // any other command is offered to H::custom_command (e.g. C15's exhaustive census)
    template <class H>
    int sim_main(int argc, char** argv)
    {
        setvbuf(stdout, nullptr, _IOLBF, 0);
        Args args(argc, argv);
        crash_state().check = H::id();
        try
        {
            H h;
            h.configure(args.params);
            Zygote<H> zygote;
            const bool pristine = h.pristine_confirmation() && args.cmd != "replay" && args.cmd != "gen";
            if (pristine && !zygote.start(h))
                throw std::runtime_error("cannot start the pristine executor");
            h.startup_selftest();
            if (args.cmd == "replay")
            {
                json::Value rf = json::parse_file(args.file);
                // tier parameters recorded in the replay file take precedence
                if (rf.has("params"))
                {
                    for (auto& kv : rf.at("params").o)
                        args.params.kv[kv.first] = kv.second.type == json::Value::String ? kv.second.s : json::dump(kv.second);
                    h.configure(args.params);
                }
                typename H::Plan plan = h.from_json(rf.at("plan"));
                std::string expected = rf.get_str("violation_class", "");
                install_crash_handlers();
                h.post_install();
                crash_state().phase = 2;
                Log l;
                l.keep_text = true;
                Outcome o = h.execute(plan, l);
                crash_state().phase = 0;
                json::Value out = json::Value::object();
                json::Value cl = json::Value::array();
                for (auto& c : o.classes)
                    cl.push(c);
                json::Value dt = json::Value::array();
                for (auto& c : o.details)
                    dt.push(c);
                out.set("classes", cl).set("details", dt).set("log_hash", json::hex64(l.h));
                json::Value lg = json::Value::array();
                for (auto& t : l.text)
                    lg.push(t);
                out.set("log", lg);
                printf("%s\n", json::dump(out).c_str());
                if (o.ok())
                    return 0;
                if (expected.empty() || o.has(expected))
                    return 1;
                return 3;
            }
            if (args.cmd == "gen")
            {
                Rng rng(run_seed(args.seed, H::id(), args.run_index));
                typename H::Plan plan = h.generate(rng);
                printf("%s\n", json::dump(h.to_json(plan)).c_str());
                return 0;
            }
            install_crash_handlers();
            h.post_install();
            Worker<H> w(h);
            w.params = args.params;
            w.seed = args.seed;
            w.max_report = args.max_report;
            w.samples_wanted = args.samples;
            w.want_hashes = args.want_hashes;
            w.distinct_prefix_for_restart = args.distinct_prefix;
            if (pristine)
                w.zygote = &zygote;
            if (args.cmd == "run")
            {
                for (uint64_t r = args.first + args.offset; r < args.first + args.count; r += args.stride)
                {
                    crash_state().run = r;
                    crash_state().phase = 1;
                    uint64_t rs = run_seed(args.seed, H::id(), r);
                    Rng rng(rs);
                    typename H::Plan plan = h.generate(rng);
                    w.process(plan, r, rs, [&]()
                              {
                                  Rng rng2(rs);
                                  return h.generate(rng2); });
                }
                w.finish(args.distinct_prefix);
                zygote.stop();
                return 0;
            }
            if (h.custom_command(args, w))
            {
                w.finish(args.distinct_prefix);
                zygote.stop();
                return 0;
            }
            fprintf(stderr, "usage: run|replay|gen\n");
            return 2;
        }
        catch (const std::exception& e)
        {
            printf("{\"infra_error\":%s}\n", json::dump(json::Value(std::string(e.what()))).c_str());
            return 2;
        }
    }

    // defaults a harness can inherit
    struct HarnessBase
    {
        void configure(const Params&) {}
        void startup_selftest() {}
        void post_install() {} // called after the generic crash handlers are installed (a harness may put its own fault handler on top)
        void extra_report(json::Value&) {}
        uint64_t shrink_budget() const { return 3000; }
        bool pristine_confirmation() const { return false; } // confirm/shrink/report violation candidates in pristine processes (see Zygote)
        template <class P>
        bool spans_several_lifetimes(const P&) const { return false; }
        bool real_clock_class(const std::string&) const { return false; } // verdict classes that come from a real-time backstop rather than a simulated clock
        template <class W>
        bool custom_command(const Args&, W&) { return false; }
    };
}
