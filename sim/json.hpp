// simcore: minimal JSON value, writer and parser (plans, replay files, worker reports).
// Integers are kept exact (int64/uint64); object keys keep insertion order so output is deterministic.
#pragma once
#include <cstdint>
#include <cstdio>
#include <cstdlib>
#include <cstring>
#include <fstream>
#include <sstream>
#include <stdexcept>
#include <string>
#include <utility>
#include <vector>

namespace sim
{
    namespace json
    {
        struct Value
        {
            enum Type
            {
                Null,
                Bool,
                Int,
                UInt,
                Double,
                String,
                Array,
                Object
            } type
                = Null;
            bool b = false;
            int64_t i = 0;
            uint64_t u = 0;
            double d = 0;
            std::string s;
            std::vector<Value> a;
            std::vector<std::pair<std::string, Value>> o;

            Value() {}
            Value(bool v)
                : type(Bool)
                , b(v)
            {
            }
            Value(int v)
                : type(Int)
                , i(v)
            {
            }
            Value(long v)
                : type(Int)
                , i(v)
            {
            }
            Value(long long v)
                : type(Int)
                , i(v)
            {
            }
            Value(unsigned v)
                : type(UInt)
                , u(v)
            {
            }
            Value(unsigned long v)
                : type(UInt)
                , u(v)
            {
            }
            Value(unsigned long long v)
                : type(UInt)
                , u(v)
            {
            }
            Value(double v)
                : type(Double)
                , d(v)
            {
            }
            Value(const char* v)
                : type(String)
                , s(v)
            {
            }
            Value(const std::string& v)
                : type(String)
                , s(v)
            {
            }
            static Value array()
            {
                Value v;
                v.type = Array;
                return v;
            }
            static Value object()
            {
                Value v;
                v.type = Object;
                return v;
            }
            Value& push(const Value& v)
            {
                type = Array;
                a.push_back(v);
                return *this;
            }
            Value& set(const std::string& k, const Value& v)
            {
                type = Object;
                for (auto& kv : o)
                    if (kv.first == k)
                    {
                        kv.second = v;
                        return *this;
                    }
                o.emplace_back(k, v);
                return *this;
            }
            bool has(const std::string& k) const
            {
                for (auto& kv : o)
                    if (kv.first == k)
                        return true;
                return false;
            }
            const Value& at(const std::string& k) const
            {
                for (auto& kv : o)
                    if (kv.first == k)
                        return kv.second;
                throw std::runtime_error("json: missing key " + k);
            }
            const Value& at(size_t k) const { return a.at(k); }
            size_t size() const { return type == Array ? a.size() : o.size(); }
            uint64_t as_u64() const
            {
                switch (type)
                {
                case UInt:
                    return u;
                case Int:
                    return (uint64_t)i;
                case Double:
                    return (uint64_t)d;
                case Bool:
                    return b;
                case String:
                    return strtoull(s.c_str(), nullptr, 0);
                default:
                    throw std::runtime_error("json: not a number");
                }
            }
            int64_t as_i64() const
            {
                switch (type)
                {
                case UInt:
                    return (int64_t)u;
                case Int:
                    return i;
                case Double:
                    return (int64_t)d;
                case Bool:
                    return b;
                case String:
                    return strtoll(s.c_str(), nullptr, 0);
                default:
                    throw std::runtime_error("json: not a number");
                }
            }
            double as_double() const
            {
                switch (type)
                {
                case UInt:
                    return (double)u;
                case Int:
                    return (double)i;
                case Double:
                    return d;
                default:
                    throw std::runtime_error("json: not a number");
                }
            }
            bool as_bool() const { return type == Bool ? b : as_u64() != 0; }
            const std::string& as_string() const
            {
                if (type != String)
                    throw std::runtime_error("json: not a string");
                return s;
            }
            uint64_t get_u64(const std::string& k, uint64_t dflt) const { return has(k) ? at(k).as_u64() : dflt; }
            std::string get_str(const std::string& k, const std::string& dflt) const { return has(k) ? at(k).as_string() : dflt; }
        };

        inline void escape(std::string& out, const std::string& s)
        {
            out += '"';
            for (unsigned char c : s)
            {
                switch (c)
                {
                case '"':
                    out += "\\\"";
                    break;
                case '\\':
                    out += "\\\\";
                    break;
                case '\n':
                    out += "\\n";
                    break;
                case '\t':
                    out += "\\t";
                    break;
                case '\r':
                    out += "\\r";
                    break;
                default:
                    if (c < 0x20)
                    {
                        char buf[8];
                        snprintf(buf, sizeof buf, "\\u%04x", c);
                        out += buf;
                    }
                    else
                        out += (char)c;
                }
            }
            out += '"';
        }

        inline void dump(std::string& out, const Value& v)
        {
            char buf[40];
            switch (v.type)
            {
            case Value::Null:
                out += "null";
                break;
            case Value::Bool:
                out += v.b ? "true" : "false";
                break;
            case Value::Int:
                snprintf(buf, sizeof buf, "%lld", (long long)v.i);
                out += buf;
                break;
            case Value::UInt:
                snprintf(buf, sizeof buf, "%llu", (unsigned long long)v.u);
                out += buf;
                break;
            case Value::Double:
                snprintf(buf, sizeof buf, "%.17g", v.d);
                if (!strpbrk(buf, ".en"))
                    strcat(buf, ".0");
                if (strpbrk(buf, "n")) // nan/inf are not JSON
                    out += "null";
                else
                    out += buf;
                break;
            case Value::String:
                escape(out, v.s);
                break;
            case Value::Array:
            {
                out += '[';
                bool first = true;
                for (auto& e : v.a)
                {
                    if (!first)
                        out += ',';
                    first = false;
                    dump(out, e);
                }
                out += ']';
                break;
            }
            case Value::Object:
            {
                out += '{';
                bool first = true;
                for (auto& kv : v.o)
                {
                    if (!first)
                        out += ',';
                    first = false;
                    escape(out, kv.first);
                    out += ':';
                    dump(out, kv.second);
                }
                out += '}';
                break;
            }
            }
        }

        inline std::string dump(const Value& v)
        {
            std::string s;
            dump(s, v);
            return s;
        }

        struct Parser
        {
            const char* p;
            const char* end;
            void ws()
            {
                while (p < end && (*p == ' ' || *p == '\n' || *p == '\t' || *p == '\r'))
                    ++p;
            }
            [[noreturn]] void fail(const char* m) { throw std::runtime_error(std::string("json parse: ") + m); }
            Value parse()
            {
                ws();
                if (p >= end)
                    fail("eof");
                char c = *p;
                if (c == '{')
                {
                    ++p;
                    Value v = Value::object();
                    ws();
                    if (p < end && *p == '}')
                    {
                        ++p;
                        return v;
                    }
                    for (;;)
                    {
                        ws();
                        Value k = parse();
                        if (k.type != Value::String)
                            fail("key");
                        ws();
                        if (p >= end || *p != ':')
                            fail(":");
                        ++p;
                        Value e = parse();
                        v.o.emplace_back(k.s, e);
                        ws();
                        if (p < end && *p == ',')
                        {
                            ++p;
                            continue;
                        }
                        if (p < end && *p == '}')
                        {
                            ++p;
                            return v;
                        }
                        fail("object");
                    }
                }
                if (c == '[')
                {
                    ++p;
                    Value v = Value::array();
                    ws();
                    if (p < end && *p == ']')
                    {
                        ++p;
                        return v;
                    }
                    for (;;)
                    {
                        v.a.push_back(parse());
                        ws();
                        if (p < end && *p == ',')
                        {
                            ++p;
                            continue;
                        }
                        if (p < end && *p == ']')
                        {
                            ++p;
                            return v;
                        }
                        fail("array");
                    }
                }
                if (c == '"')
                {
                    ++p;
                    std::string s;
                    while (p < end && *p != '"')
                    {
                        if (*p == '\\')
                        {
                            ++p;
                            if (p >= end)
                                fail("escape");
                            switch (*p)
                            {
                            case 'n':
                                s += '\n';
                                break;
                            case 't':
                                s += '\t';
                                break;
                            case 'r':
                                s += '\r';
                                break;
                            case 'b':
                                s += '\b';
                                break;
                            case 'f':
                                s += '\f';
                                break;
                            case 'u':
                            {
                                if (end - p < 5)
                                    fail("\\u");
                                char h[5] = { p[1], p[2], p[3], p[4], 0 };
                                unsigned cp = (unsigned)strtoul(h, nullptr, 16);
                                if (cp < 0x80)
                                    s += (char)cp;
                                else if (cp < 0x800)
                                {
                                    s += (char)(0xc0 | (cp >> 6));
                                    s += (char)(0x80 | (cp & 0x3f));
                                }
                                else
                                {
                                    s += (char)(0xe0 | (cp >> 12));
                                    s += (char)(0x80 | ((cp >> 6) & 0x3f));
                                    s += (char)(0x80 | (cp & 0x3f));
                                }
                                p += 4;
                                break;
                            }
                            default:
                                s += *p;
                            }
                            ++p;
                        }
                        else
                            s += *p++;
                    }
                    if (p >= end)
                        fail("string");
                    ++p;
                    return Value(s);
                }
                if (!strncmp(p, "true", 4))
                {
                    p += 4;
                    return Value(true);
                }
                if (!strncmp(p, "false", 5))
                {
                    p += 5;
                    return Value(false);
                }
                if (!strncmp(p, "null", 4))
                {
                    p += 4;
                    return Value();
                }
                // number
                const char* q = p;
                bool isfloat = false;
                if (*q == '-')
                    ++q;
                while (q < end && (isdigit((unsigned char)*q) || *q == '.' || *q == 'e' || *q == 'E' || *q == '+' || *q == '-'))
                {
                    if (*q == '.' || *q == 'e' || *q == 'E')
                        isfloat = true;
                    ++q;
                }
                if (q == p)
                    fail("value");
                std::string t(p, q);
                bool neg = (*p == '-');
                p = q;
                if (isfloat)
                    return Value(strtod(t.c_str(), nullptr));
                if (neg)
                    return Value((long long)strtoll(t.c_str(), nullptr, 10));
                return Value((unsigned long long)strtoull(t.c_str(), nullptr, 10));
            }
        };

        inline Value parse(const std::string& text)
        {
            Parser ps { text.data(), text.data() + text.size() };
            return ps.parse();
        }

        inline Value parse_file(const std::string& path)
        {
            std::ifstream f(path);
            if (!f)
                throw std::runtime_error("cannot open " + path);
            std::stringstream ss;
            ss << f.rdbuf();
            return parse(ss.str());
        }

        inline std::string hex32(uint32_t v)
        {
            char b[16];
            snprintf(b, sizeof b, "0x%08x", v);
            return b;
        }
        inline std::string hex64(uint64_t v)
        {
            char b[24];
            snprintf(b, sizeof b, "0x%016llx", (unsigned long long)v);
            return b;
        }
    }
}
